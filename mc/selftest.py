"""10-second self-test run by setup.sh: library path, seams live, reference interpreter vs torch."""
import os
import sys

import numpy as np
import torch

ROOT = os.path.dirname(os.path.dirname(os.path.abspath(__file__)))
sys.path.insert(0, ROOT)


def main():
    import torchjd
    from torchjd import backward
    from torchjd.aggregation import Constant

    from mc import programs as P
    from mc.seams import DrawReplayer, RecordingAggregator, SetOrderSeam

    assert os.path.realpath(torchjd.__file__).startswith("/repo/src/"), torchjd.__file__
    # reference interpreter vs torch.autograd on all depth-1 programs
    n = 0
    for scen, shapes in P.SHAPE_SCENARIOS.items():
        for prog, outs in P.enum_program_outputs(shapes, (1, 1, 1), 1, both_orders=False):
            lv = P.leaf_values(shapes, 0)
            ref, vals = P.RefRun(prog, lv), P.build_torch(prog, lv)
            assert P.forward_agrees(vals, ref)
            n += 1
    # set-order seam: both column orders reach the aggregator
    seen = set()
    for order in ((0, 1), (1, 0)):
        a = torch.tensor([1.0, 2.0], requires_grad=True)
        b = torch.tensor([3.0], requires_grad=True)
        y = torch.cat([a * 2, b * 3])
        rank = {id(a): order[0], id(b): order[1]}
        agg = RecordingAggregator(Constant(torch.tensor([1.0, 1.0, 1.0])))
        with SetOrderSeam(lambda x: rank[id(x)]) as seam:
            backward([y], agg, inputs=[a, b])
        assert seam.hits > 0
        seen.add(tuple(agg.calls[0][0].sum(0).tolist()))
    assert len(seen) == 2, "set-order seam is dead"
    with DrawReplayer([("randperm", [1, 0])]) as d:
        assert torch.randperm(2).tolist() == [1, 0]
    print(f"selftest ok: {n} programs cross-checked, seams live, torchjd at {torchjd.__file__}")


if __name__ == "__main__":
    main()
