"""Generic dense matrix family G(seed) (full rank, well conditioned for small shapes). Needed next to
``alphabets.dense``: D(seed) has entries round(3 sin(a i + b j + c), 2), and sin(a i + b j + c) is a rank-2 kernel, so every
D(seed) matrix with min(m, n) >= 3 is rank 2 up to the two-decimal rounding (condition numbers 1e3 .. 3e4) and is dropped by
every full-rank / unambiguous-rank predicate. Deterministic, no randomness: a quadratic phase breaks the low-rank structure."""
from __future__ import annotations

import math

import numpy as np


def generic(seed, m, n, count=8):
    out = []
    for k in range(count):
        phi = 1.6180339887 + 0.37 * k + 0.11 * (seed % 8)
        c = 0.3 * k + (seed % 8)
        M = np.array([[round(3 * math.sin(phi * (i * n + j + 1) ** 2 + c), 2) for j in range(n)] for i in range(m)])
        out.append(M)
    return out
