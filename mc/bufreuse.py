"""One instance of an aggregator fed ONE pre-allocated matrix buffer that is re-filled in place between the calls (what a
training loop with a persistent Jacobian buffer does), then a transposed view and a row-slice view of a larger buffer: every
result must be identical (bit for bit on the plain buffer, up to rounding on the views) to what a newly constructed instance returns on a newly built tensor with the same values.

This is the history family that exposes results memoised on the *identity* of the matrix object (lru_cache on a tensor,
`matrix is self._last`, (data_ptr, _version) keys) - a mechanism that four independent seeded changes used and that value-based
alphabets cannot see, because every evaluation there builds a new tensor. Used by C03, C09, C16 and C18 as case kind "bufreuse"
(C04, C08, C10, C11, C17 have their own variants)."""
from __future__ import annotations

import numpy as np


def mats(m, n, count=4):
    """count fixed, generic, pairwise different m x n matrices with conflicts (deterministic)."""
    out = []
    for k in range(count):
        i, j = np.meshgrid(np.arange(m), np.arange(n), indexing="ij")
        M = np.sin(1.3 * i + 0.7 * j + 0.9 * k + 0.2) * 2.0 + np.where((i + j + k) % 3 == 0, -1.0, 0.5)
        out.append(np.round(M, 3))
    return out


def run(makers, shape=(3, 4), dtypes=("float64", "float32"), seeded=(), tols={"CAGrad": 1e-3}):
    """makers: dict name -> zero-argument constructor taking the torch dtype: lambda dt: Aggregator(...).
    Returns a check-result dict (viol, execs, outcomes, nontrivial)."""
    import torch

    m, n = shape
    seq = mats(m, n)
    seq = seq + [seq[0], seq[2] * 3.0]
    viol, execs, outcomes = [], 0, set()
    for dtype in dtypes:
        dt = getattr(torch, dtype)
        for name, mk in makers.items():
            agg = mk(dt)
            buf = torch.zeros(m, n, dtype=dt)
            big = torch.zeros(m + 2, n, dtype=dt)
            bufT = torch.zeros(n, m, dtype=dt)
            refs = {}  # references first (new instance, new tensor), so that no other call separates two calls on the buffer
            for k_, J in enumerate(seq):
                try:
                    if name in seeded:
                        torch.manual_seed(7)
                    refs[k_] = mk(dt)(torch.tensor(J, dtype=dt)).detach().numpy().copy()
                    execs += 1
                except Exception as e:
                    viol.append(dict(sig=f"exception:bufreuse:{name}:{type(e).__name__}", msg=f"{name} {dtype} new instance on {J.tolist()}: {e!r}"[:300]))
            if len(refs) != len(seq):
                continue
            # first pass: the plain buffer only, calls back to back (a memo of the LAST matrix object must be hit); second pass: all forms
            for step, J in enumerate(seq + seq):
                Jt = torch.tensor(J, dtype=dt)
                forms = []
                buf.copy_(Jt)
                forms.append(("re-filled buffer", buf))
                if step >= len(seq):
                    bufT.copy_(Jt.t())
                    forms.append(("transposed view of a re-filled buffer", bufT.t()))
                    big[1:m + 1].copy_(Jt)
                    forms.append(("row slice of a re-filled larger buffer", big[1:m + 1]))
                y = refs[step % len(seq)]
                bad = False
                for what, arg in forms:
                    try:
                        if name in seeded:
                            torch.manual_seed(7)
                        x = agg(arg).detach().numpy().copy()
                        execs += 1
                    except Exception as e:
                        viol.append(dict(sig=f"exception:bufreuse:{name}:{type(e).__name__}", msg=f"{name} {dtype} step {step} ({what}): {e!r}"[:300]))
                        bad = True
                        break
                    # bit-for-bit on the plain buffer; the views go through other BLAS kernels (last-bit differences are legitimate)
                    tol = 0.0 if what == "re-filled buffer" else (tols.get(name.split("|")[0], 1e-9 if dtype == "float64" else 2e-4) * max(1.0, float(np.abs(y).max())))
                    err = float(np.abs(x.astype(np.float64) - y.astype(np.float64)).max()) if x.shape == y.shape else float("inf")
                    if not (err <= tol):
                        viol.append(dict(sig=f"result-depends-on-the-matrix-object:{name.split('|')[0]}", cls=f"bufreuse:{name}:{dtype}",
                                         msg=f"{name} {dtype}: call #{step} of one instance on a {what} holding {J.tolist()} gives {x.tolist()}, "
                                             f"a new instance on a new tensor gives {y.tolist()}"[:700]))
                        bad = True
                        break
                if bad:
                    break
                outcomes.add(f"{name}:{dtype}:{step}")
    return dict(viol=viol, execs=execs, outcomes=sorted(outcomes), nontrivial=len(outcomes))
