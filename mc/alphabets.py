"""Finite matrix alphabets (DESIGN §2.4). Pure NumPy; every generator is deterministic."""
from __future__ import annotations

import itertools
import math

import numpy as np


def ternary(m, n, entries=(-1, 0, 1)):
    """All m x n matrices with entries in ``entries`` (lexicographic)."""
    for t in itertools.product(entries, repeat=m * n):
        yield np.array(t, dtype=np.float64).reshape(m, n)


def ternary_count(m, n, k=3):
    return k ** (m * n)


SHAPES_LE3 = [(1, 1), (1, 2), (1, 3), (2, 1), (2, 2), (2, 3), (3, 1), (3, 2), (3, 3)]


def ternary_index(m, n, idx, entries=(-1, 0, 1)):
    """idx-th ternary matrix (same order as ``ternary``)."""
    k, digits = len(entries), []
    for _ in range(m * n):
        digits.append(entries[idx % k])
        idx //= k
    return np.array(digits[::-1], dtype=np.float64).reshape(m, n)


def canonical_ternary(m, n):
    """Structural sublist: lexicographically smallest member of each class under row permutation,
    column permutation and column sign flips. Used ONLY to thin quick tiers of slow aggregators
    (stated bound), never as a symmetry reduction in thorough tiers."""
    seen, out = set(), []
    rperms = list(itertools.permutations(range(m)))
    cperms = list(itertools.permutations(range(n)))
    signs = list(itertools.product((1, -1), repeat=n))
    for M in ternary(m, n):
        key = M.tobytes()
        if key in seen:
            continue
        out.append(M)
        for rp in rperms:
            A = M[list(rp)]
            for cp in cperms:
                B = A[:, list(cp)]
                for s in signs:
                    seen.add((B * np.array(s)).tobytes())
    return out


def near_cases():
    """Parametrised hard cases: nearly antiparallel pairs, imbalanced norms; embedded in 2x2,2x3,3x3."""
    out = []
    for d in (1e-1, 1e-3, 1e-6):
        out.append(np.array([[1.0, 0.0], [-1.0, d]]))
        out.append(np.array([[1.0, 0.0, 0.0], [-1.0, d, 0.0]]))
        out.append(np.array([[1.0, 0.0, 0.0], [-1.0, d, 0.0], [0.0, 1.0, 1.0]]))
        out.append(np.array([[1.0, 0.0, 0.0], [-math.cos(d), math.sin(d), 0.0], [0.0, -1.0, d]]))
        out.append(np.array([[1.0, 2.0], [-1.0, -2.0 + d]]))
    for r in (1e-6, 1e-3, 1e3, 1e6):
        out.append(np.array([[1.0, 0.5], [-r, r]]))
        out.append(np.array([[1.0, 0.5, 0.0], [-r, r, 0.0], [0.0, 1.0, -1.0]]))
        out.append(np.array([[r, 0.0, 0.0], [0.0, 1.0, 0.0], [-1.0, -1.0, 1.0 / r]]))
    return out


def dense(seed, m, n, count=8):
    """Dense family D(seed): entries round(3 sin(a i + b j + c), 2) for generic (a, b, c)."""
    out = []
    for k in range(count):
        a = 1.0 + 0.37 * k + 0.11 * (seed % 8)
        b = 2.0 + 0.53 * k + 0.07 * (seed % 8)
        c = 0.3 * k + (seed % 8)
        M = np.array([[round(3 * math.sin(a * i + b * j + c), 2) for j in range(n)] for i in range(m)])
        out.append(M)
    return out


SCALES32 = [1e-12, 1e-8, 1e-4, 1.0, 1e4, 1e8, 1e12, 1e15]
SCALES64 = [1e-100, 1e-50, 1e-12, 1.0, 1e12, 1e50, 1e100]
L3 = (1e-3, 1.0, 1e3)
L2 = (0.5, 2.0)
L1 = (0.1, 1.0, 10.0)


def pref_vectors(m):
    """P(m): uniform (None), one-hots, increasing, one tiny entry."""
    out = [None]
    for i in range(m):
        e = np.zeros(m)
        e[i] = 1.0
        out.append(e)
    inc = np.arange(1, m + 1, dtype=np.float64)
    out.append(inc / inc.sum())
    if m >= 2:
        t = np.ones(m)
        t[0] = 1e-3
        out.append(t)
    return out


def positive_pref_vectors(m):
    inc = np.arange(1, m + 1, dtype=np.float64)
    out = [None, inc / inc.sum(), inc[::-1].copy()]
    if m >= 2:
        t = np.ones(m)
        t[0] = 1e-2
        out.append(t)
    return out


def sigma_max(J):
    J = np.asarray(J, dtype=np.float64)
    if J.size == 0:
        return 0.0
    return float(np.linalg.svd(J, compute_uv=False)[0])


def numerical_rank_gap(J):
    """Returns (rank, gap) where gap = sigma_r / sigma_{r+1} (inf if none), on the scale-normalised matrix."""
    s = np.linalg.svd(np.asarray(J, dtype=np.float64), compute_uv=False)
    if s.size == 0 or s[0] == 0:
        return 0, math.inf
    s = s / s[0]
    r = int((s > 1e-9).sum())
    gap = math.inf if r == len(s) or s[r] == 0 else s[r - 1] / s[r]
    return r, gap
