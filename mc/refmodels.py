"""Boring, exact reference models (DESIGN §2.3). Pure NumPy / Python; no torch, no torchjd."""
from __future__ import annotations

import itertools
import math

import numpy as np


# ----------------------------------------------------------------------------- dual cone QP
def qp_lower_bounded(G, u):
    """argmin_v v^T G v  s.t. v >= u  for symmetric positive definite G, by enumeration of all 2^m
    active sets. Returns (v, kkt_residual). The KKT-feasible candidate is unique for G > 0; the one
    with the smallest violation is returned together with its violation."""
    G = np.asarray(G, dtype=np.float64)
    u = np.asarray(u, dtype=np.float64)
    m = len(u)
    best, best_res = None, math.inf
    gs = max(1.0, float(np.abs(G).max()))
    us = max(1e-300, float(np.abs(u).max()))
    for mask in itertools.product((0, 1), repeat=m):
        act = [i for i in range(m) if mask[i]]
        free = [i for i in range(m) if not mask[i]]
        v = u.copy()
        if free:
            try:
                rhs = -G[np.ix_(free, act)] @ u[act] if act else np.zeros(len(free))
                v[free] = np.linalg.solve(G[np.ix_(free, free)], rhs)
            except np.linalg.LinAlgError:
                continue
        mu = G @ v  # multipliers (up to the factor 2) on the active set, must be >= 0 there, == 0 on free
        res = 0.0
        if free:
            res = max(res, float(np.max(u[free] - v[free])) / us)  # primal feasibility
        if act:
            res = max(res, float(np.max(-mu[act])) / (gs * us))
        if res < best_res:
            best, best_res = v, res
    return best, best_res


def normalized_gramian(J, norm_eps):
    """J J^T / s^2 (zero when s < norm_eps), s = largest singular value; float64."""
    J = np.asarray(J, dtype=np.float64)
    s = np.linalg.svd(J, compute_uv=False)[0] if J.size else 0.0
    if s < norm_eps:
        return np.zeros((J.shape[0], J.shape[0])), s
    Jn = J / s
    return Jn @ Jn.T, s


def dualproj_weights(J, u, norm_eps, reg_eps):
    G, s = normalized_gramian(J, norm_eps)
    m = J.shape[0]
    if u is None:
        u = np.full(m, 1.0 / m)
    w, res = qp_lower_bounded(G + reg_eps * np.eye(m), u)
    return w, res, s


def upgrad_weights(J, u, norm_eps, reg_eps):
    G, s = normalized_gramian(J, norm_eps)
    m = J.shape[0]
    if u is None:
        u = np.full(m, 1.0 / m)
    Gr = G + reg_eps * np.eye(m)
    w, worst = np.zeros(m), 0.0
    for i in range(m):
        e = np.zeros(m)
        e[i] = u[i]
        wi, res = qp_lower_bounded(Gr, e)
        w += wi
        worst = max(worst, res)
    return w, worst, s


# ----------------------------------------------------------------------------- min-norm point
def min_norm_point(J):
    """Minimum-norm point of conv(rows of J): enumerate supports, affine min-norm on each, keep the
    feasible one of least norm. Returns (weights, point, norm^2)."""
    J = np.asarray(J, dtype=np.float64)
    m = J.shape[0]
    G = J @ J.T
    best = (None, None, math.inf)
    for r in range(1, m + 1):
        for S in itertools.combinations(range(m), r):
            S = list(S)
            GS = G[np.ix_(S, S)]
            # minimise a^T GS a s.t. sum a = 1 : KKT system
            K = np.zeros((r + 1, r + 1))
            K[:r, :r] = 2 * GS
            K[:r, r] = 1
            K[r, :r] = 1
            rhs = np.zeros(r + 1)
            rhs[r] = 1
            sol = np.linalg.lstsq(K, rhs, rcond=None)[0]
            a = sol[:r]
            if abs(a.sum() - 1) > 1e-9 or (a < -1e-12).any():
                continue
            a = np.clip(a, 0, None)
            a = a / a.sum()
            w = np.zeros(m)
            w[S] = a
            val = float(w @ G @ w)
            if val < best[2]:
                best = (w, w @ J, val)
    return best


def is_stationary(J, tol=1e-9):
    """0 in conv(rows) up to tol (relative to sigma_max)."""
    s = np.linalg.svd(J, compute_uv=False)[0] if J.size else 0.0
    if s == 0:
        return True
    _, _, v = min_norm_point(J / s)
    return v <= tol


# ----------------------------------------------------------------------------- PCGrad / GradDrop / Random
def pcgrad_ref(J, orders):
    """Row-space PCGrad: orders[i] is the sequence of row indices (may contain i, which is skipped)
    against which row i is successively projected when they conflict with the *current* vector."""
    J = np.asarray(J, dtype=np.float64)
    out = np.zeros(J.shape[1])
    for i in range(J.shape[0]):
        g = J[i].copy()
        for j in orders[i]:
            if j == i:
                continue
            ip = float(g @ J[j])
            if ip < 0.0:
                g = g - ip / float(J[j] @ J[j]) * J[j]
        out += g
    return out


def graddrop_ref(J, U, leak=None):
    J = np.asarray(J, dtype=np.float64)
    m, n = J.shape
    leak = np.zeros(m) if leak is None else np.asarray(leak, dtype=np.float64)
    out = np.zeros(n)
    for c in range(n):
        col = J[:, c]
        tot = np.abs(col).sum()
        if tot == 0:
            out[c] = 0.0  # implementation yields nan*0... handled by caller (skipped)
            continue
        Pc = 0.5 * (1 + col.sum() / tot)
        keep_pos = Pc > U[c]
        keep_neg = Pc < U[c]
        for i in range(m):
            mask = (keep_pos and col[i] > 0) or (keep_neg and col[i] < 0)
            out[c] += (leak[i] + (1 - leak[i]) * (1.0 if mask else 0.0)) * col[i]
    return out


def softmax(v):
    v = np.asarray(v, dtype=np.float64)
    e = np.exp(v - v.max())
    return e / e.sum()


# ----------------------------------------------------------------------------- robust aggregators
def trimmed_mean_ref(J, b):
    J = np.asarray(J, dtype=np.float64)
    m, n = J.shape
    out = np.zeros(n)
    for c in range(n):
        col = sorted(J[:, c].tolist())
        kept = col[b : m - b]
        out[c] = math.fsum(kept) / len(kept)
    return out


def krum_scores(J, f):
    J = np.asarray(J, dtype=np.float64)
    m = J.shape[0]
    k = m - f - 2
    scores = []
    for i in range(m):
        d = sorted(float(np.linalg.norm(J[i] - J[j])) for j in range(m) if j != i)
        scores.append(math.fsum(d[:k]))
    return scores


# ----------------------------------------------------------------------------- helpers
def lstsq_residual(J, x):
    """Distance of x to the row span of J."""
    J = np.asarray(J, dtype=np.float64)
    x = np.asarray(x, dtype=np.float64)
    if J.size == 0:
        return float(np.linalg.norm(x))
    c = np.linalg.lstsq(J.T, x, rcond=None)[0]
    return float(np.linalg.norm(J.T @ c - x))
