"""Shared kit of the aggregator-symmetry checks C08 / C10: JSON-able aggregator configurations, running the
REAL aggregator with replayed draws, transporting a configuration along a row / column transformation,
and the well-posedness predicates (DESIGN §2.4) evaluated by the reference side in float64 NumPy.

A configuration is a dict:  name, and depending on the aggregator
    p      row-aligned parameter vector (pref_vector / Constant weights / GradDrop leak) or None
    f, k   Krum;  b TrimmedMean;  c CAGrad
    U      GradDrop draw (one entry per COLUMN);  sched  PCGrad schedule id;  z  Random draw (one per row)
"""
from __future__ import annotations

import itertools
import math
from fractions import Fraction

import numpy as np

from mc import alphabets as A
from mc import refmodels as R

GRAMIAN_BASED = ("UPGrad", "DualProj", "MGDA", "PCGrad", "CAGrad", "IMTLG", "AlignedMTL", "ConFIG", "Krum", "Mean",
                 "Sum", "Constant", "Random")
RANK_SENSITIVE = ("IMTLG", "ConFIG", "AlignedMTL", "CAGrad")
MGDA_EPS, MGDA_ITERS = 1e-3, 100  # library defaults (the instance under test is built with the defaults)


class LibraryException(Exception):
    """The real aggregator raised on a valid input."""

    def __init__(self, exc):
        super().__init__(repr(exc))
        self.exc = exc


def cfg_key(cfg):
    return cfg["name"] + "".join(f"|{k}={cfg[k]}" for k in sorted(cfg) if k != "name" and cfg[k] is not None)


def cfg_label(cfg):
    """Coarse label used for per-oracle margins (aggregator + whether it carries a parameter vector)."""
    s = cfg["name"]
    if cfg.get("p") is not None:
        s += "(p)"
    if cfg["name"] == "Krum":
        s += f"({cfg['f']},{cfg['k']})"
    if cfg["name"] == "CAGrad":
        s += f"(c={cfg['c']})"
    return s


def pcgrad_script(sched, m):
    if sched == "id":
        return [("randperm", list(range(m)))] * m
    if sched == "rev":
        return [("randperm", list(range(m - 1, -1, -1)))] * m
    if sched == "rot":
        return [("randperm", [(i + j + 1) % m for j in range(m)]) for i in range(m)]
    raise ValueError(sched)


def run_agg(cfg, J, dtype="float64"):
    """One execution of the real aggregator described by ``cfg`` on ``J`` (fresh instance, draws replayed).
    Returns (x, w) as float64 arrays (w = output of ``aggregator.weighting`` for _WeightedAggregator, else None).
    Library exceptions are wrapped in LibraryException; draw-script mismatches propagate (harness error)."""
    import torch
    import torchjd.aggregation as TA
    from torchjd.aggregation.bases import _WeightedAggregator

    from mc.seams import DrawReplayer

    dt = getattr(torch, dtype)
    m, n = J.shape
    name = cfg["name"]
    p = None if cfg.get("p") is None else torch.tensor(list(cfg["p"]), dtype=dt)
    script = []
    known = ("UPGrad", "DualProj", "AlignedMTL", "ConFIG", "MGDA", "IMTLG", "Mean", "Sum", "PCGrad", "Random", "CAGrad",
             "Krum", "Constant", "TrimmedMean", "GradDrop", "NashMTL")
    if name not in known:
        raise ValueError(name)
    try:
        if name in ("UPGrad", "DualProj", "AlignedMTL", "ConFIG"):
            agg = getattr(TA, name)(pref_vector=p)
        elif name in ("MGDA", "IMTLG", "Mean", "Sum"):
            agg = getattr(TA, name)()
        elif name == "PCGrad":
            agg, script = TA.PCGrad(), pcgrad_script(cfg["sched"], m)
        elif name == "Random":
            agg, script = TA.Random(), [("randn", list(cfg["z"]))]
        elif name == "CAGrad":
            agg = TA.CAGrad(c=cfg["c"])
        elif name == "Krum":
            agg = TA.Krum(n_byzantine=cfg["f"], n_selected=cfg["k"])
        elif name == "Constant":
            agg = TA.Constant(p)
        elif name == "TrimmedMean":
            agg = TA.TrimmedMean(cfg["b"])
        elif name == "GradDrop":
            agg = TA.GradDrop(leak=p)
            script = [("rand", list(cfg["U"]))] if m > 0 and n > 0 else []
        else:
            agg = TA.NashMTL(n_tasks=m)
    except Exception as e:  # noqa: BLE001 - a constructor rejecting a valid configuration is a finding
        raise LibraryException(e)
    Jt = torch.tensor(np.asarray(J, dtype=np.float64), dtype=dt)
    got = []
    h = None
    if isinstance(agg, _WeightedAggregator):
        h = agg.weighting.register_forward_hook(lambda mod, inp, out: got.append(out))
    rp = DrawReplayer(script)
    try:
        with rp:
            try:
                x = agg(Jt)
            except DrawReplayer.Mismatch:
                raise
            except Exception as e:  # noqa: BLE001 - everything the library raises on a valid input is a finding
                raise LibraryException(e)
    finally:
        if h is not None:
            h.remove()
    # scripted draws left unconsumed are not an error here: the output is judged by the oracles (a code path that
    # returns before drawing is legitimate, e.g. GradDrop on an empty matrix)
    if x.dtype != dt or tuple(x.shape) != (n,):
        raise LibraryException(TypeError(f"{name}: output dtype {x.dtype} shape {tuple(x.shape)} for a {m}x{n} {dtype} matrix"))
    w = None
    if h is not None:
        if len(got) != 1:
            raise LibraryException(TypeError(f"{name}: weighting called {len(got)} times"))
        w = got[0].detach().double().numpy().copy() if hasattr(got[0], "detach") else np.asarray(got[0], dtype=np.float64)
    return x.detach().double().numpy().copy(), w


# ----------------------------------------------------------------------------- transporting configurations
def permute_rows_cfg(cfg, perm):
    """Configuration for the matrix J[perm] that corresponds to ``cfg`` for J (row-aligned vectors follow)."""
    out = dict(cfg)
    if cfg.get("p") is not None:
        out["p"] = [cfg["p"][i] for i in perm]
    if cfg.get("z") is not None:
        out["z"] = [cfg["z"][i] for i in perm]
    return out


def map_cols_cfg(cfg, src, fill=0.5):
    """Configuration for the matrix whose column j is (+-) column src[j] of J, or a new all-zero column when
    src[j] is None: the GradDrop draw, one entry per column, follows its column; new columns draw ``fill``."""
    if cfg.get("U") is None:
        return cfg
    out = dict(cfg)
    out["U"] = [fill if s is None else cfg["U"][s] for s in src]
    return out


def signed_perms(n):
    """Hyperoctahedral group B_n as (src, sign): (JQ)[:, j] = sign[j] * J[:, src[j]]."""
    return [(list(p), list(s)) for p in itertools.permutations(range(n)) for s in itertools.product((1.0, -1.0), repeat=n)]


def apply_cols(J, src, sign=None):
    m = J.shape[0]
    cols = []
    for j, s in enumerate(src):
        c = np.zeros(m) if s is None else J[:, s]
        if sign is not None:
            c = c * sign[j]
        cols.append(c)
    return (np.stack(cols, axis=1) + 0.0) if cols else np.zeros((m, 0))  # + 0.0: no negative zeros


def apply_vec(x, src, sign=None):
    out = np.array([0.0 if s is None else x[s] for s in src])
    if sign is not None:
        out = out * np.asarray(sign)
    return out + 0.0


def givens(n, i, j, theta):
    Q = np.eye(n)
    c, s = math.cos(theta), math.sin(theta)
    Q[i, i], Q[j, j], Q[i, j], Q[j, i] = c, c, -s, s
    return Q


def householder(n):
    v = np.arange(1.0, n + 1.0)
    v[::2] *= -1.0
    return np.eye(n) - 2.0 * np.outer(v, v) / float(v @ v)


def zero_insertions(n, counts=(1, 2)):
    """All ways of inserting 1 or 2 all-zero columns into an n-column matrix: list of src maps."""
    out = []
    for z in counts:
        for pos in itertools.combinations(range(n + z), z):
            it = iter(range(n))
            out.append([None if j in pos else next(it) for j in range(n + z)])
    return out


# ----------------------------------------------------------------------------- predicates (reference side)
def is_small_integer(J):
    J = np.asarray(J)
    return bool(np.all(J == np.round(J)) and np.all(np.abs(J) <= 1024))


def rank_unambiguous(J, lo=1e-9, hi=1e-2):
    """Every normalised singular value is either >= hi or <= lo, and the gap reported by
    alphabets.numerical_rank_gap is >= hi/lo: the numerical rank is the same for every sensible threshold
    (the library's own ones: pinv rcond 1e-15*max(m,n) on J J^T or on the unit rows, AlignedMTL eigenvalue
    threshold m*1.2e-7 on J J^T, i.e. 3.5e-4*sqrt(m) on singular values)."""
    J = np.asarray(J, dtype=np.float64)
    if J.size == 0:
        return True
    s = np.linalg.svd(J, compute_uv=False)
    if s[0] == 0:
        return True
    s = s / s[0]
    if not bool(np.all((s >= hi) | (s <= lo))):
        return False
    _, gap = A.numerical_rank_gap(J)
    return gap >= hi / lo


def unit_rows(J):
    J = np.asarray(J, dtype=np.float64)
    d = np.linalg.norm(J, axis=1)
    out = np.zeros_like(J)
    nz = d > 0
    out[nz] = J[nz] / d[nz, None]
    return out


def imtlg_wellposed(J, thr=1e-6):
    """|1^T pinv(G) d| * max(d) >= thr (dimensionless): away from IMTL-G's division by ~0 and from its absolute
    guard |sum v| < 1e-12 (scale-dependent defect handled under C11); matrices must also be at scale ~1."""
    J = np.asarray(J, dtype=np.float64)
    s = A.sigma_max(J)
    if not (1e-3 <= s <= 1e3):
        return False
    d = np.linalg.norm(J, axis=1)
    v = np.linalg.pinv(J @ J.T, rcond=1e-10, hermitian=True) @ d
    return abs(float(v.sum())) * float(d.max()) >= thr


def config_direction_ratio(J, p):
    """|pinv(unit rows) @ w| / |w| with w the preference vector (ones by default). When this is 0 in exact
    arithmetic ConFIG's direction is 0/0: the library guards it with an exact `norm() == 0` test which rounding
    noise defeats (finding reported under the sig prefix 'zero-direction:ConFIG')."""
    U = unit_rows(J)
    w = np.ones(U.shape[0]) if p is None else np.asarray(p, dtype=np.float64)
    if not np.any(w):
        return 0.0
    return float(np.linalg.norm(np.linalg.pinv(U, rcond=1e-10) @ w) / np.linalg.norm(w))


def dense2(seed, m, n, count=8):
    """A second dense family with generic FULL rank (alphabets.dense is a rank-2 kernel sin(ai+bj+c) plus
    rounding noise of relative size 1e-3, which no 'unambiguous rank' predicate accepts for m, n >= 3)."""
    out = []
    for k in range(count):
        a = 0.9 + 0.31 * k + 0.13 * (seed % 8)
        b = 1.7 + 0.47 * k + 0.05 * (seed % 8)
        c = 0.61 + 0.29 * k + 0.17 * (seed % 8)
        out.append(np.array([[round(3 * math.sin(1.0 + a * i * i + b * j + c * (i + 1) * (j + 2)), 2) for j in range(n)]
                             for i in range(m)]))
    return out


def krum_margin(J, f, k):
    """Relative gap between the k-th and (k+1)-th smallest Krum score (inf when all rows are selected)."""
    m = J.shape[0]
    if k >= m:
        return math.inf
    sc = sorted(R.krum_scores(J, f))
    top = max(sc[-1], 1e-300)
    return (sc[k] - sc[k - 1]) / top


def mgda_trajectory_margin(J, epsilon=MGDA_EPS, max_iters=MGDA_ITERS):
    """Replays Frank-Wolfe as the library documents it (uniform start, vertex = argmin of G alpha, exact line
    search, stop when gamma < epsilon) on the scale-normalised Gramian in float64 and returns the smallest
    relative margin of any discontinuous decision along the trajectory: (second smallest - smallest) entry of
    G alpha, and |gamma - epsilon|. 0 means an exact tie: which vertex the library picks then depends on the
    row order / on rounding, and the iterates legitimately differ. Used ONLY as a predicate."""
    J = np.asarray(J, dtype=np.float64)
    m = J.shape[0]
    s = A.sigma_max(J)
    if m <= 1 or s == 0:
        return math.inf
    G = (J / s) @ (J / s).T
    alpha = np.full(m, 1.0 / m)
    margin = math.inf
    for _ in range(max_iters):
        ga = G @ alpha
        order = np.argsort(ga, kind="stable")
        t = int(order[0])
        margin = min(margin, float(ga[order[1]] - ga[t]))
        a = float(alpha @ G[:, t])
        b = float(alpha @ ga)
        c = float(G[t, t])
        if c <= a:
            gamma = 1.0
        elif b <= a:
            gamma = 0.0
        else:
            gamma = (b - a) / (b + c - 2 * a)
        alpha = (1 - gamma) * alpha
        alpha[t] += gamma
        margin = min(margin, abs(gamma - epsilon))
        if gamma < epsilon:
            break
    return margin


def graddrop_tie_state(J, U):
    """'clear' when every |P_j - U_j| >= 1e-9 (or column all-zero: P is 0/0 and the mask is empty whatever U),
    'exact' when some P_j == U_j exactly in rational arithmetic, 'near' otherwise."""
    J = np.asarray(J, dtype=np.float64)
    state = "clear"
    for c in range(J.shape[1]):
        col = [Fraction(float(v)) for v in J[:, c]]
        tot = sum(abs(v) for v in col)
        if tot == 0:
            continue
        P = Fraction(1, 2) * (1 + sum(col) / tot)
        d = abs(P - Fraction(float(U[c])))
        if d == 0:
            state = "exact" if state != "near" else state
        elif d < Fraction(1, 10**9):
            state = "near"
    return state


def weights_scale(w, x, s):
    """Size of the coefficients of the combination: tolerances on outputs are tol * s * max(1, this)."""
    if w is not None and len(w):
        return max(1.0, float(np.abs(w).max()))
    return max(1.0, float(np.abs(x).max()) / s) if s > 0 and len(x) else 1.0


# ----------------------------------------------------------------------------- bookkeeping shared by C08 / C10
class Ctx:
    def __init__(self):
        self.viol, self.outcomes = [], set()
        self.execs = self.nontrivial = self.dropped = 0
        self.margin, self.maxima, self.counters = 0.0, {}, {}

    def count(self, k, v=1):
        self.counters[k] = self.counters.get(k, 0) + v

    def call(self, cfg, J):
        self.execs += 1
        try:
            return run_agg(cfg, J)
        except LibraryException as e:
            self.viol.append(dict(sig=f"exception:{cfg['name']}:{type(e.exc).__name__}",
                                  msg=f"{cfg_key(cfg)} J={np.asarray(J).tolist()}: {e.exc!r}"[:500]))
            return None

    def compare(self, oracle, err, tol, sig, msg):
        r = err / tol if (tol > 0 and math.isfinite(err)) else (0.0 if err == 0 else math.inf)
        if r > self.maxima.get(oracle, -1.0):
            self.maxima[oracle] = r
        self.margin = max(self.margin, r if math.isfinite(r) else 1e300)
        self.count("comparisons")
        if not (r <= 1.0):
            self.viol.append(dict(sig=sig, msg=(msg() if callable(msg) else msg)[:700], cls=sig))
            return False
        return True

    def zero_direction(self, clause, err, tol, msg):
        """ConFIG at a point where pinv(unit rows) @ pref vanishes in exact arithmetic (0/0 direction): kept apart
        from the normal oracles; a mismatch is the known-finding candidate 'zero-direction:ConFIG:<clause>'."""
        self.count("zero-direction:ConFIG evaluated")
        if not (err <= tol):
            self.count("zero-direction:ConFIG mismatches")
            sig = f"zero-direction:ConFIG:{clause}"
            self.viol.append(dict(sig=sig, msg=(msg() if callable(msg) else msg)[:700], cls=sig))

    def result(self):
        return dict(viol=self.viol, execs=self.execs, outcomes=sorted(self.outcomes), nontrivial=self.nontrivial,
                    dropped=self.dropped, margin=self.margin, maxima=self.maxima, counters=self.counters)


class Pred:
    """Per-matrix cache of the well-posedness predicates."""

    def __init__(self, J):
        self.J = J
        self.s = A.sigma_max(J)
        self.integer = is_small_integer(J)
        self._c = {}

    def _get(self, k, fn):
        if k not in self._c:
            self._c[k] = fn()
        return self._c[k]

    def zero_direction(self, cfg):
        p = cfg.get("p")
        return self._get(("cfgdir", None if p is None else tuple(p)), lambda: config_direction_ratio(self.J, p)) < 1e-6

    def admissible(self, cfg, exact, row_order=False):
        """None if the comparison may be asserted with the tight tolerance, 'mgda-tie' for the loose MGDA bound,
        'zero-direction' for ConFIG's 0/0 points, otherwise 'drop:<predicate>'.
        ``exact``: the transformation is exact in floating point on this (integer) matrix and leaves every score the
        library computes bit-identical (column transformations of C08) - tie predicates are then not needed.
        ``row_order``: the transformation reorders the rows (C10): index-based tie-breaks (Krum's topk, Frank-Wolfe's
        argmin) then legitimately pick other rows, whatever the arithmetic - tie predicates always apply."""
        J, name = self.J, cfg["name"]
        if name in RANK_SENSITIVE:
            if not self._get("rank", lambda: rank_unambiguous(J)):
                return "drop:rank"
            if name == "ConFIG" and not self._get("rank-units", lambda: rank_unambiguous(unit_rows(J))):
                return "drop:rank"
        if name == "IMTLG" and not self._get("imtlg", lambda: imtlg_wellposed(J)):
            return "drop:imtlg-guard"
        if name == "ConFIG" and self.zero_direction(cfg):
            return "zero-direction"
        ties = row_order or not (exact and self.integer)
        if ties and name == "Krum" and self._get(("krum", cfg["f"], cfg["k"]), lambda: krum_margin(J, cfg["f"], cfg["k"])) < 1e-6:
            return "drop:krum-tie"
        if ties and name == "MGDA" and self._get("mgda", lambda: mgda_trajectory_margin(J)) < 1e-9:
            return "mgda-tie"
        if name == "GradDrop" and not (exact and self.integer):
            if self._get(("gd", tuple(cfg["U"])), lambda: graddrop_tie_state(J, cfg["U"])) != "clear":
                return "drop:graddrop-tie"
        return None


MGDA_LOOSE = 2.0 * math.sqrt(max(8 * MGDA_EPS, 16.0 / (MGDA_ITERS + 2)))
