"""Runner (DESIGN §2.5): materialises the deterministic case list of a check, shards it over worker
processes, explores every case on the real code in /repo/src, aggregates counters into the evidence
file, writes replay artefacts and prints VIOLATION / KNOWN-FINDING lines.

Contract of a check module ``checks/cXX.py``:
    SPEC = dict(property_id, level, rule, assumptions=[...], bound={tier: text}, technique=...)
    gen_cases(tier, seed) -> list of JSON-able cases (deterministic, cheap)
    run_case(case) -> dict(
        viol=[{"sig": str, "msg": str, ...}],   # violations of the property in this case
        execs=int,                              # executions of the real code (transitions)
        outcomes=[str],                         # digests of the distinct observable outcomes / states
        nontrivial=int,                         # number of distinct non-trivial sub-cases (per SPEC.rule)
        dropped=int, margin=float, counters={name: int})
    optional: finalize(tier, seed, agg) -> list of extra violations / raises HarnessError
exit codes: 0 held, 1 violation (with VIOLATION lines), 2 harness problem (no VIOLATION line).
"""
from __future__ import annotations

import argparse
import hashlib
import importlib
import json
import multiprocessing as mp
import os
import sys
import time
import traceback

ROOT = os.path.dirname(os.path.dirname(os.path.abspath(__file__)))
# the registered checks always run /repo; VERIF_REPO redirects to a scratch worktree when trying out mutants
REPO_SRC = os.path.realpath(os.path.join(os.environ.get("VERIF_REPO", "/repo"), "src"))


class HarnessError(Exception):
    pass


def digest(obj) -> str:
    return hashlib.sha1(json.dumps(obj, sort_keys=True, default=str).encode()).hexdigest()[:16]


def _worker_init():
    os.environ.setdefault("PYTHONHASHSEED", "0")
    os.environ["PYTHONDONTWRITEBYTECODE"] = "1"
    sys.dont_write_bytecode = True
    if ROOT not in sys.path:
        sys.path.insert(0, ROOT)
    if sys.path[0] != REPO_SRC:
        sys.path.insert(0, REPO_SRC)
    import warnings

    warnings.filterwarnings("ignore")
    import torch

    torch.set_num_threads(1)
    import torchjd

    p = os.path.realpath(torchjd.__file__)
    if not p.startswith(REPO_SRC + "/"):
        raise HarnessError(f"torchjd imported from {p}, not from {REPO_SRC}")


_MOD = None


def _load(pid):
    global _MOD
    if _MOD is None or _MOD.__name__ != f"checks.{pid.lower()}":
        _MOD = importlib.import_module(f"checks.{pid.lower()}")
    return _MOD


def _run_chunk(arg):
    pid, idx_cases = arg
    try:
        _worker_init()
        mod = _load(pid)
    except Exception:
        return [(-1, None, "init: " + traceback.format_exc())]
    out = []
    for idx, case in idx_cases:
        try:
            r = mod.run_case(case)
            out.append((idx, r, None))
        except Exception:
            out.append((idx, None, traceback.format_exc()))
    return out


def load_known():
    p = os.path.join(ROOT, "known_findings.json")
    if not os.path.exists(p):
        return []
    return json.load(open(p)).get("findings", [])


def _match_known(known, pid, sig):
    for k in known:
        if k.get("property") == pid and k.get("status") == "known" and sig.startswith(k["match"]):
            return k
    return None


def write_evidence(pid, ev):
    d = os.environ.get("VERIF_EVIDENCE_DIR", os.path.join(ROOT, "evidence"))
    os.makedirs(d, exist_ok=True)
    p = os.path.join(d, f"{pid}.json")
    tmp = p + ".tmp"
    with open(tmp, "w") as f:
        json.dump(ev, f, indent=1, sort_keys=True, default=str)
    os.replace(tmp, p)


def main(argv=None):
    ap = argparse.ArgumentParser()
    ap.add_argument("pid")
    ap.add_argument("--tier", default=os.environ.get("VERIF_TIER", "quick"), choices=["quick", "thorough"])
    ap.add_argument("--replay", default=None)
    ap.add_argument("--workers", type=int, default=int(os.environ.get("VERIF_WORKERS", "16")))
    ap.add_argument("--limit", type=int, default=0, help="debug: only the first N cases")
    args = ap.parse_args(argv)
    pid = args.pid.upper()
    try:
        seed = int(os.environ.get("VERIF_SEED", "0") or 0)
    except ValueError:
        seed = 0
    os.environ.setdefault("PYTHONHASHSEED", "0")
    if ROOT not in sys.path:
        sys.path.insert(0, ROOT)

    if args.replay:
        return replay(pid, args.replay)

    t0 = time.time()
    mod = _load(pid)
    spec = mod.SPEC
    cases = mod.gen_cases(args.tier, seed)
    if args.limit:
        cases = cases[: args.limit]
    n = len(cases)
    if n == 0:
        print(f"HARNESS-ERROR property={pid} empty case list")
        return 2
    # shard: interleaved chunks so that expensive neighbours spread over workers
    nchunks = max(1, min(n, args.workers * 8))
    chunks = [[] for _ in range(nchunks)]
    for i, c in enumerate(cases):
        chunks[i % nchunks].append((i, c))
    # determinism slice: a few cases are executed a second time in another worker
    nslice = min(n, getattr(mod, "DETERMINISM_SLICE", 24))
    step = max(1, n // nslice)
    slice_idx = [(seed + k * step) % n for k in range(nslice)]
    slice_idx = sorted(set(slice_idx))
    tasks = [("slice", [(i, cases[i])]) for i in slice_idx] + [("main", ch) for ch in chunks if ch]

    # fork after importing torch/torchjd once in the parent (16 parallel imports cost ~12 s of wall time);
    # the parent never runs a torch op before forking. VERIF_START=spawn selects the slower, stricter method.
    start = os.environ.get("VERIF_START", "fork")
    if start == "fork":
        _worker_init()
        _load(pid)
    ctx = mp.get_context(start)
    results = {}
    second = {}
    harness_errors = []
    nw = max(1, min(args.workers, len(tasks)))
    with ctx.Pool(nw) as pool:
        for k, res in enumerate(pool.imap(_run_chunk, [(pid, ch) for _, ch in tasks])):
            is_slice = tasks[k][0] == "slice"
            for idx, r, err in res:
                if err is not None:
                    harness_errors.append((idx, err))
                    continue
                if is_slice:
                    second[idx] = r
                else:
                    results[idx] = r
    harness_fault = None
    if harness_errors:
        # a harness fault in some cases does not erase violations demonstrated on the real code by other cases:
        # violations are reported (exit 1); with no violation the run fails closed (exit 2, no VIOLATION line)
        idx, err = harness_errors[0]
        harness_fault = f"HARNESS-ERROR property={pid} case={idx} ({len(harness_errors)} errors)\n{err}"
        if idx >= 0:
            harness_fault += "\ncase: " + json.dumps(cases[idx], default=str)[:2000]
        if any(i < 0 for i, _ in harness_errors):
            print(harness_fault)
            return 2
        for i, _ in harness_errors:
            results.setdefault(i, dict(viol=[], execs=0, outcomes=[], nontrivial=0))
            second.pop(i, None)

    # determinism
    nondet = [i for i, r in second.items() if i in results and r.get("outcomes") != results[i].get("outcomes")]
    if nondet:
        # outcomes that differ between two executions of the same case: fails closed (exit 2) unless violations were also found -
        # a library that reads uninitialised memory is nondeterministic AND wrong, and the violations are replayable
        msg = f"HARNESS-ERROR property={pid} nondeterministic outcome digests for cases {nondet[:5]}"
        harness_fault = (harness_fault + "\n" if harness_fault else "") + msg

    known = load_known()
    agg = dict(
        execs=0, dropped=0, nontrivial=0, outcomes=set(), margin=0.0, counters={}, maxima={}, viol=[], margin_case=None
    )
    for i in range(n):
        r = results[i]
        agg["execs"] += int(r.get("execs", 1))
        agg["dropped"] += int(r.get("dropped", 0))
        agg["nontrivial"] += int(r.get("nontrivial", 0))
        agg["outcomes"].update(r.get("outcomes", []))
        m = float(r.get("margin", 0.0) or 0.0)
        if m > agg["margin"]:
            agg["margin"], agg["margin_case"] = m, i
        for k, v in (r.get("counters") or {}).items():
            agg["counters"][k] = agg["counters"].get(k, 0) + v
        for k, v in (r.get("maxima") or {}).items():
            if v > agg["maxima"].get(k, -1.0):
                agg["maxima"][k] = v
        for v in r.get("viol", []):
            agg["viol"].append((i, v))
    extra_notes = {}
    if hasattr(mod, "finalize"):
        try:
            fin = mod.finalize(args.tier, seed, agg, cases, results) or {}
        except Exception as e:  # the runner runs as __main__: mc.runner.HarnessError raised by a check is another class object
            if type(e).__name__ != "HarnessError":
                raise
            fin = {}
            harness_fault = (harness_fault + "\n" if harness_fault else "") + f"HARNESS-ERROR property={pid} {e}"
        for v in fin.get("viol", []):
            agg["viol"].append((-1, v))
        extra_notes = fin.get("notes", {})

    # report violations (first per signature)
    seen_sig, n_viol, n_known = set(), 0, 0
    known_hit = {}
    os.makedirs(os.path.join(ROOT, "replays", pid), exist_ok=True)
    for i, v in agg["viol"]:
        sig = v["sig"]
        k = _match_known(known, pid, sig)
        if k is not None:
            known_hit.setdefault(k["match"], [k, 0])[1] += 1
            continue
        n_viol += 1
        cls = v.get("cls", sig)
        if cls in seen_sig:
            continue
        seen_sig.add(cls)
        if len(seen_sig) > 20:
            continue
        rp = os.path.join(ROOT, "replays", pid, digest([cases[i] if i >= 0 else None, sig]) + ".json")
        with open(rp, "w") as f:
            json.dump({"property": pid, "case": cases[i] if i >= 0 else None, "violation": v}, f, indent=1, default=str)
        print(f"VIOLATION property={pid} replay={rp}")
        print(f"  {sig}: {v.get('msg', '')}"[:600])
    for m, (k, cnt) in known_hit.items():
        n_known += cnt
        print(f"KNOWN-FINDING: property={pid} {k['what']} [{cnt} matching case(s); match={m}]")

    wall = time.time() - t0
    states = len(agg["outcomes"])
    samples = [cases[i] for i in sorted(set([0, n // 2, n - 1]))][:3]
    cov = dict(
        evaluations=n,
        distinct_nontrivial=agg["nontrivial"],
        rule=spec["rule"],
        samples=samples,
        states=max(states, 0),
        transitions=agg["execs"],
        traces_validated_against_impl=agg["execs"],
        exhaustive=bool(spec.get("exhaustive", True)),
        distinct_outcomes=states,
        dropped_by_predicate=agg["dropped"],
        worst_margin=agg["margin"],
        worst_margin_case=(cases[agg["margin_case"]] if agg["margin_case"] is not None else None),
        bound=spec.get("bound", {}).get(args.tier, ""),
        caps_hit=[],
        counters=agg["counters"],
        margins_by_oracle={k: float(f"{v:.4g}") for k, v in sorted(agg["maxima"].items())},
        determinism_slice=len(second),
        known_findings_matched=n_known,
        explanation=spec.get("explanation", ""),
    )
    cov.update(extra_notes)
    ev = dict(
        property_id=pid,
        tier=args.tier,
        seed=seed,
        level=spec["level"],
        coverage=cov,
        assumptions=spec.get("assumptions", []),
        wall_s=round(wall, 2),
        violations=n_viol,
    )
    write_evidence(pid, ev)
    print(
        f"[{pid}] tier={args.tier} seed={seed} cases={n} executions={agg['execs']} distinct_outcomes={states} "
        f"nontrivial={agg['nontrivial']} dropped={agg['dropped']} worst_margin={agg['margin']:.3g} "
        f"violations={n_viol} known={n_known} wall={wall:.1f}s"
    )
    if agg["maxima"]:
        print("  margins(err/tol) by oracle:", {k: float(f"{v:.3g}") for k, v in sorted(agg["maxima"].items())})
    if n_viol:
        if harness_fault:
            print(harness_fault[:1500])
        return 1
    if harness_fault:
        print(harness_fault)
        return 2
    # vacuity: fail closed (harness problem, not a violation)
    min_out = spec.get("min_outcomes", 2)
    if states < min_out or agg["nontrivial"] < spec.get("min_nontrivial", 2):
        print(f"HARNESS-ERROR property={pid} vacuous run: distinct_outcomes={states} nontrivial={agg['nontrivial']}")
        return 2
    return 0


def replay(pid, path):
    _worker_init()
    mod = _load(pid)
    d = json.load(open(path))
    case = d["case"] if "case" in d else d
    r = mod.run_case(case)
    known = load_known()
    bad = [v for v in r.get("viol", []) if _match_known(known, pid, v["sig"]) is None]
    print(json.dumps({"case": case, "violations": r.get("viol", [])}, indent=1, default=str)[:6000])
    if bad:
        print(f"VIOLATION property={pid} replay={path}")
        return 1
    print(f"[{pid}] replay: property held on this case")
    return 0


if __name__ == "__main__":
    sys.exit(main())
