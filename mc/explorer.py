"""E-choice: stateless choice-point explorer (DESIGN §0). ``run(chooser)`` executes the real code and
calls ``chooser.choose(n, label)`` at every nondeterministic point (a set-iteration order, an RNG
draw). ``explore`` enumerates every choice sequence depth-first: it replays a prefix, takes choice 0
at every later point, then branches on every alternative of every point after the prefix.
Out-of-range choices or a replay whose (n, label) sequence diverges from the recorded one are hard
errors (the harness does not own the nondeterminism) — never violations.

E-hist helper: ``histories(alphabet, max_len)`` enumerates all event sequences up to a length.
"""
from __future__ import annotations

import itertools


class ReplayDivergence(Exception):
    pass


class Chooser:
    def __init__(self, prefix=(), expected=()):
        self.prefix = list(prefix)
        self.expected = list(expected)  # [(n, label)] recorded when the prefix was created
        self.trace = []  # [(n, label, choice)]

    def choose(self, n, label=""):
        i = len(self.trace)
        if n <= 0:
            raise ReplayDivergence(f"choice point {label!r} with {n} alternatives")
        if i < len(self.prefix):
            c = self.prefix[i]
            if i < len(self.expected) and self.expected[i] != (n, label):
                raise ReplayDivergence(f"point {i}: expected {self.expected[i]}, got {(n, label)}")
            if not 0 <= c < n:
                raise ReplayDivergence(f"point {i}: choice {c} out of range {n}")
        else:
            c = 0
        self.trace.append((n, label, c))
        return c

    @property
    def choices(self):
        return [c for _, _, c in self.trace]


def explore(run, max_executions=None):
    """Yields (choices, result) for every execution. Raises ReplayDivergence on a harness fault.
    ``max_executions`` is a cap that is REPORTED by the caller when hit (never silently)."""
    stack = [([], [])]
    n_exec = 0
    while stack:
        prefix, expected = stack.pop()
        ch = Chooser(prefix, expected)
        res = run(ch)
        if len(ch.trace) < len(prefix):
            raise ReplayDivergence(f"execution ended after {len(ch.trace)} points, prefix had {len(prefix)}")
        n_exec += 1
        yield ch.choices, res
        if max_executions is not None and n_exec >= max_executions:
            return
        for i in range(len(ch.trace) - 1, len(prefix) - 1, -1):
            n, _, _ = ch.trace[i]
            base = [c for _, _, c in ch.trace[:i]]
            exp = [(a, b) for a, b, _ in ch.trace[: i + 1]]
            for alt in range(n - 1, 0, -1):
                stack.append((base + [alt], exp))


def histories(alphabet, max_len, min_len=1):
    """All sequences over ``alphabet`` with min_len <= length <= max_len, shortest first."""
    for L in range(min_len, max_len + 1):
        for h in itertools.product(alphabet, repeat=L):
            yield list(h)


def permutation_by_index(n, k):
    """k-th permutation of range(n) in lexicographic order (k < n!)."""
    items, out = list(range(n)), []
    import math

    for i in range(n, 0, -1):
        f = math.factorial(i - 1)
        out.append(items.pop(k // f))
        k %= f
    return out
