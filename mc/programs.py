"""Program universe (DESIGN §2.2): straight-line SSA terms over <= 3 leaves, a torch builder and an
independent NumPy forward-mode (dual number) reference interpreter.

A program is JSON-able:
    {"shapes": [[2],[2],[]], "req": [1,1,1], "ops": [["mul",[0,1]],["sum",[3]]]}
Values are numbered: leaves 0..L-1, then the results of the ops in order (``unbind`` appends several).
Nothing in this file imports torchjd.
"""
from __future__ import annotations

import itertools
import math
from functools import lru_cache

import numpy as np

SHAPE_SCENARIOS = {
    "S1": ((2,), (2,), ()),
    "S2": ((2, 2), (2,), (1,)),
    "S3": ((), (), ()),
}
FLAG_SCENARIOS = {"all": (1, 1, 1), "L1off": (1, 0, 1)}

UNARY = ("sin", "neg", "scale", "sum", "sumlast", "flat", "idx0", "detach", "unbind", "tr")
BINARY = ("add", "mul", "matmul", "stack")
COMMUTATIVE = ("add", "mul")


# ----------------------------------------------------------------------------- typing
def _bshape(a, b):
    try:
        return tuple(np.broadcast_shapes(a, b))
    except ValueError:
        return None


def op_result_shapes(op, shapes):
    """Returns the list of result shapes of ``op`` applied to operand ``shapes``, or None."""
    if op in ("sin", "neg", "scale", "detach"):
        return [shapes[0]]
    s = shapes[0]
    if op == "sum":
        return [()] if len(s) >= 1 else None
    if op == "sumlast":
        return [s[:-1]] if len(s) >= 2 else None  # for 1-d it coincides with sum
    if op == "flat":
        return [(int(np.prod(s)),)] if len(s) != 1 else None
    if op == "idx0":
        return [s[1:]] if len(s) >= 1 and s[0] >= 1 else None
    if op == "tr":  # transpose of a 2-d value: a dense NON-contiguous view
        return [(s[1], s[0])] if len(s) == 2 else None
    if op == "unbind":
        return [s[1:]] * s[0] if len(s) >= 1 and s[0] >= 2 else None
    t = shapes[1]
    if op in ("add", "mul"):
        r = _bshape(s, t)
        return [r] if r is not None else None
    if op == "matmul":
        if len(s) == 1 and len(t) == 1 and s[0] == t[0]:
            return [()]
        if len(s) == 2 and len(t) == 1 and s[1] == t[0]:
            return [(s[0],)]
        return None
    if op == "stack":
        return [(2,) + s] if s == t and len(s) <= 1 else None
    raise KeyError(op)


class Typed:
    """Static facts about a program: shapes, requires_grad, producing op, dependencies."""

    def __init__(self, prog):
        self.prog = prog
        self.shapes = [tuple(s) for s in prog["shapes"]]
        self.req = [bool(r) for r in prog["req"]]
        self.nleaves = len(self.shapes)
        self.producer = [None] * self.nleaves  # op index producing each value
        self.deps = [frozenset([i]) if self.req[i] else frozenset() for i in range(self.nleaves)]
        self.operands = [()] * self.nleaves
        for k, (op, args) in enumerate(prog["ops"]):
            rs = op_result_shapes(op, [self.shapes[a] for a in args])
            if rs is None:
                raise ValueError(f"ill-typed op {op}{args}")
            if op == "detach":
                rq, dp = False, frozenset()
            else:
                rq = any(self.req[a] for a in args)
                dp = frozenset().union(*[self.deps[a] for a in args])
            for r in rs:
                self.shapes.append(tuple(r))
                self.req.append(rq)
                self.deps.append(dp)
                self.producer.append(k)
                self.operands.append(tuple(args))

    @property
    def nvalues(self):
        return len(self.shapes)

    def numel(self, v):
        return int(np.prod(self.shapes[v])) if self.shapes[v] else 1

    def ancestors(self, v):
        """All values (incl. leaves) that v is computed from, transitively (v excluded)."""
        seen, stack = set(), list(self.operands[v])
        while stack:
            a = stack.pop()
            if a not in seen:
                seen.add(a)
                stack.extend(self.operands[a])
        return seen

    def node_nested(self, values):
        """True iff some value of ``values`` is an ancestor of another one, or is produced by the same op application (autograd
        node) as a strict ancestor of another one (e.g. [x.unbind()[1], sin(x.unbind()[0])])."""
        for a in values:
            for b in values:
                if a == b:
                    continue
                anc = self.ancestors(b)
                if a in anc:
                    return True
                if self.producer[a] is not None and any(self.producer[x] == self.producer[a] for x in anc):
                    return True
        return False

    def live_ops(self, outputs):
        """Indices of ops that are ancestors of ``outputs``."""
        live, stack = set(), list(outputs)
        seen = set()
        while stack:
            v = stack.pop()
            if v in seen:
                continue
            seen.add(v)
            k = self.producer[v]
            if k is not None:
                live.add(k)
                stack.extend(self.operands[v])
        return live


# ----------------------------------------------------------------------------- enumeration
def enum_programs(shapes, req, depth, ops=UNARY + BINARY):
    """Yields every well-typed program with exactly ``depth`` ops (commutative operands sorted)."""
    shapes = [tuple(s) for s in shapes]

    def rec(prog_ops, vshapes, d):
        if d == 0:
            yield {"shapes": [list(s) for s in shapes], "req": list(map(int, req)), "ops": list(prog_ops)}
            return
        n = len(vshapes)
        for op in ops:
            if op in UNARY:
                for a in range(n):
                    rs = op_result_shapes(op, [vshapes[a]])
                    if rs is None:
                        continue
                    yield from rec(prog_ops + [[op, [a]]], vshapes + [tuple(r) for r in rs], d - 1)
            else:
                for a in range(n):
                    for b in range(n):
                        if op in COMMUTATIVE and b < a:
                            continue
                        rs = op_result_shapes(op, [vshapes[a], vshapes[b]])
                        if rs is None:
                            continue
                        yield from rec(prog_ops + [[op, [a, b]]], vshapes + [tuple(r) for r in rs], d - 1)

    yield from rec([], shapes, depth)


def enum_program_outputs(shapes, req, depth, max_outputs=2, ops=UNARY + BINARY, both_orders=True, leaf_outputs=False):
    """Yields (prog, outputs): programs of exactly ``depth`` ops and ordered lists of 1..max_outputs
    distinct non-leaf grad-requiring values such that every op is live (canonical: no dead code)."""
    for prog in enum_programs(shapes, req, depth, ops):
        t = Typed(prog)
        cands = [v for v in range(0 if leaf_outputs else t.nleaves, t.nvalues) if t.req[v]]
        nops = len(prog["ops"])
        for r in range(1, max_outputs + 1):
            for outs in itertools.combinations(cands, r):
                if len(t.live_ops(outs)) != nops:
                    continue
                if leaf_outputs and not any(v < t.nleaves for v in outs):
                    continue  # only the additional cases
                if both_orders:
                    for p in itertools.permutations(outs):
                        yield prog, list(p)
                else:
                    yield prog, list(outs)


# ----------------------------------------------------------------------------- leaf values
def leaf_values(shapes, seed=0):
    """Generic, pairwise distinct values with 0.3 <= |v| <= 3 (deterministic function of seed)."""
    out, k = [], 0
    phi = 0.6180339887498949
    for s in shapes:
        n = int(np.prod(s)) if s else 1
        vals = []
        for _ in range(n):
            k += 1
            f = math.modf(k * phi + (seed % 8) * 0.137 + 0.05)[0]
            sign = -1.0 if (k + seed) % 3 == 0 else 1.0
            vals.append(sign * round(0.3 + 2.7 * f, 3))
        out.append(np.array(vals, dtype=np.float64).reshape(s))
    return out


# ----------------------------------------------------------------------------- reference interpreter
class RefRun:
    """NumPy float64 dual-number evaluation. ``val[v]`` value, ``tan[v]`` of shape (N,)+shape with N
    the total number of leaf scalars; row j of tan is d value / d (j-th leaf scalar)."""

    def __init__(self, prog, leaf_vals):
        t = Typed(prog)
        self.t = t
        self.offsets, off = [], 0
        for i in range(t.nleaves):
            self.offsets.append(off)
            off += t.numel(i)
        N = self.N = off
        self.val, self.tan = [], []
        for i in range(t.nleaves):
            v = np.asarray(leaf_vals[i], dtype=np.float64).reshape(t.shapes[i])
            tan = np.zeros((N,) + t.shapes[i])
            if t.req[i]:
                n = t.numel(i)
                tan.reshape(N, n)[self.offsets[i] : self.offsets[i] + n, :] = np.eye(n)
            self.val.append(v)
            self.tan.append(tan)
        for op, args in prog["ops"]:
            self._apply(op, args)

    def _bt(self, tan, vshape, rshape):
        """Broadcasts a tangent of a value of shape vshape to the result shape."""
        N = self.N
        pad = (1,) * (len(rshape) - len(vshape))
        return np.broadcast_to(tan.reshape((N,) + pad + tuple(vshape)), (N,) + tuple(rshape))

    def _apply(self, op, args):
        a, ta = self.val[args[0]], self.tan[args[0]]
        N = self.N
        if op == "sin":
            r, tr = np.sin(a), ta * np.cos(a)
        elif op == "neg":
            r, tr = -a, -ta
        elif op == "scale":
            r, tr = 2.5 * a, 2.5 * ta
        elif op == "detach":
            r, tr = a.copy(), np.zeros_like(ta)
        elif op == "sum":
            r, tr = a.sum(), ta.reshape(N, -1).sum(axis=1)
        elif op == "sumlast":
            r, tr = a.sum(axis=-1), ta.sum(axis=-1)
        elif op == "flat":
            r, tr = a.reshape(-1), ta.reshape(N, -1)
        elif op == "idx0":
            r, tr = a[0], ta[:, 0]
        elif op == "tr":
            r, tr = a.T.copy(), np.swapaxes(ta, 1, 2).copy()
        elif op == "unbind":
            for i in range(a.shape[0]):
                self.val.append(np.asarray(a[i]))
                self.tan.append(ta[:, i])
            return
        else:
            b, tb = self.val[args[1]], self.tan[args[1]]
            if op in ("add", "mul"):
                rs = np.broadcast_shapes(a.shape, b.shape)
                ta_, tb_ = self._bt(ta, a.shape, rs), self._bt(tb, b.shape, rs)
                if op == "add":
                    r, tr = a + b, ta_ + tb_
                else:
                    r, tr = a * b, ta_ * b + a * tb_
            elif op == "matmul":
                r = a @ b
                if a.ndim == 1:
                    tr = ta @ b + tb @ a
                else:
                    tr = ta @ b + tb @ a.T
            elif op == "stack":
                r, tr = np.stack([a, b]), np.stack([ta, tb], axis=1)
            else:
                raise KeyError(op)
        self.val.append(np.asarray(r, dtype=np.float64))
        self.tan.append(np.asarray(tr, dtype=np.float64))

    def jac(self, v, leaf):
        """Jacobian of value v (flattened, rows) w.r.t. leaf (flattened, columns)."""
        n = self.t.numel(leaf)
        o = self.offsets[leaf]
        return self.tan[v].reshape(self.N, -1)[o : o + n, :].T.copy()

    def jacobian(self, outputs, leaves):
        """Rows: scalars of outputs flattened in the given order; columns: leaves in given order."""
        if not leaves:
            return np.zeros((sum(self.t.numel(v) for v in outputs), 0))
        return np.vstack([np.hstack([self.jac(v, l) for l in leaves]) for v in outputs])


# ----------------------------------------------------------------------------- torch builder
def build_torch(prog, leaf_vals, dtype="float64", layout="c"):
    """Builds the real autograd graph. Returns the list of all values (leaves first).
    layout="f": leaves with >= 2 dimensions are dense but NON-contiguous (column-major memory), same values."""
    import torch

    dt = getattr(torch, dtype)
    t = Typed(prog)
    vals = []
    for i in range(t.nleaves):
        x = torch.tensor(np.asarray(leaf_vals[i], dtype=np.float64).reshape(t.shapes[i]), dtype=dt)
        if layout == "f" and x.dim() >= 2:
            perm = list(range(x.dim()))[::-1]
            x = x.permute(perm).contiguous().permute(perm)  # same values and shape, reversed strides
        x.requires_grad_(t.req[i])
        vals.append(x)
    for op, args in prog["ops"]:
        a = vals[args[0]]
        if op == "sin":
            r = a.sin()
        elif op == "neg":
            r = -a
        elif op == "scale":
            r = 2.5 * a
        elif op == "detach":
            r = a.detach()
        elif op == "sum":
            r = a.sum()
        elif op == "sumlast":
            r = a.sum(-1)
        elif op == "flat":
            r = a.reshape(-1)
        elif op == "idx0":
            r = a[0]
        elif op == "tr":
            r = a.t()
        elif op == "unbind":
            vals.extend(a.unbind(0))
            continue
        else:
            b = vals[args[1]]
            if op == "add":
                r = a + b
            elif op == "mul":
                r = a * b
            elif op == "matmul":
                r = a @ b
            elif op == "stack":
                r = torch.stack([a, b])
            else:
                raise KeyError(op)
        vals.append(r)
    return vals


def forward_agrees(vals, ref, dtype="float64"):
    """Harness self-check: torch forward values equal the reference's (else the harness is wrong)."""
    tol = 1e-10 if dtype == "float64" else 2e-4
    for v, r in zip(vals, ref.val):
        x = v.detach().double().numpy()
        if x.shape != r.shape:
            return False
        if not np.allclose(x, r, rtol=tol, atol=tol):
            return False
    return True


def prog_str(prog, outputs=None):
    s = [f"L{i}{tuple(sh)}{'' if rq else '!'}" for i, (sh, rq) in enumerate(zip(prog["shapes"], prog["req"]))]
    n = len(prog["shapes"])
    t = Typed(prog)
    for op, args in prog["ops"]:
        k = sum(1 for _ in op_result_shapes(op, [t.shapes[a] for a in args]))
        names = ",".join(f"v{n + i}" for i in range(k))
        s.append(f"{names}={op}({','.join('v' + str(a) for a in args)})")
        n += k
    if outputs is not None:
        s.append("out=" + str(list(outputs)))
    return "; ".join(s)
