"""Seams owning the library's nondeterminism from outside the source (DESIGN §2.1)."""
from __future__ import annotations

import builtins
import contextlib
import itertools
import sys

import torch
from torch import Tensor

from torchjd.aggregation import Aggregator


# ----------------------------------------------------------------------------- set iteration order
class OrderedIterSet(set):
    """A real ``set`` whose iteration order is imposed (``_order`` lists all members)."""

    _order: list

    def __iter__(self):
        order = getattr(self, "_order", None)
        if order is None:
            return super().__iter__()
        return iter(list(order))


class SetOrderSeam:
    """Shadows the names ``set`` and ``_get_leaf_tensors`` in ``torchjd.autojac.backward`` (and
    ``_get_leaf_tensors`` in ``torchjd.autojac.mtl_backward``) so that the sets of tensors they
    produce iterate in the order ``rank`` imposes: members are sorted by ``rank(tensor)``.
    ``hits`` counts how often the seam was exercised (liveness)."""

    def __init__(self, rank):
        self.rank = rank
        self.hits = 0
        self._saved = []

    def _mk(self, it):
        s = OrderedIterSet(it)
        members = list(builtins.set.__iter__(s))
        try:
            members.sort(key=self.rank)
        except Exception:
            return s
        s._order = members
        self.hits += 1
        return s

    def __enter__(self):
        """Shadows the name ``set`` in EVERY loaded module of ``torchjd.autojac`` (so that a set built by ``set(...)``
        anywhere in the differentiation layer - inputs, Init's values, required keys ... - iterates in the imposed
        order) and wraps ``_get_leaf_tensors`` where it is imported by name. Set displays/comprehensions cannot be
        shadowed; they are covered by role rotation."""
        seam = self

        def fake_set(*a):
            return seam._mk(*a) if a else builtins.set()

        for name, mod in list(sys.modules.items()):
            if mod is None or not (name == "torchjd.autojac" or name.startswith("torchjd.autojac.")):
                continue
            self._patch(mod, "set", fake_set)
            orig = mod.__dict__.get("_get_leaf_tensors")
            if orig is not None and name in ("torchjd.autojac.backward", "torchjd.autojac.mtl_backward"):
                self._patch(mod, "_get_leaf_tensors", (lambda o: (lambda *a, **k: seam._mk(o(*a, **k))))(orig))
        return self

    def _patch(self, mod, name, val):
        missing = object()
        self._saved.append((mod, name, mod.__dict__.get(name, missing), missing))
        mod.__dict__[name] = val

    def __exit__(self, *exc):
        for mod, name, old, missing in reversed(self._saved):
            if old is missing:
                mod.__dict__.pop(name, None)
            else:
                mod.__dict__[name] = old
        self._saved.clear()
        return False


# ----------------------------------------------------------------------------- RNG draws
class DrawReplayer:
    """Replaces torch.randperm / torch.rand / torch.randn by a replayer. ``script`` is a list of
    ("randperm", [..]) / ("rand", [..]) / ("randn", [..]) entries consumed in order. A draw that is
    not scripted, of the wrong kind or of the wrong size is a hard error (harness, not library)."""

    class Mismatch(Exception):
        pass

    def __init__(self, script):
        self.script = list(script)
        self.pos = 0
        self.log = []

    def _next(self, kind, size, dtype):
        if self.pos >= len(self.script):
            raise DrawReplayer.Mismatch(f"unscripted draw {kind}{size} at position {self.pos}")
        k, vals = self.script[self.pos]
        self.pos += 1
        self.log.append((kind, tuple(size)))
        if k != kind:
            raise DrawReplayer.Mismatch(f"draw kind {kind} != scripted {k}")
        t = torch.tensor(vals, dtype=dtype)
        if tuple(t.shape) != tuple(size):
            raise DrawReplayer.Mismatch(f"draw size {tuple(size)} != scripted {tuple(t.shape)}")
        return t

    def __enter__(self):
        self._orig = (torch.randperm, torch.rand, torch.randn)
        rp = self

        def randperm(n, *a, **k):
            return rp._next("randperm", (n,), torch.int64)

        def _size(a):
            if len(a) == 1 and not isinstance(a[0], int):
                return tuple(a[0])
            return tuple(a)

        def rand(*a, **k):
            return rp._next("rand", _size(a), k.get("dtype") or torch.get_default_dtype())

        def randn(*a, **k):
            return rp._next("randn", _size(a), k.get("dtype") or torch.get_default_dtype())

        torch.randperm, torch.rand, torch.randn = randperm, rand, randn
        return self

    def __exit__(self, *exc):
        torch.randperm, torch.rand, torch.randn = self._orig
        return False

    @property
    def exhausted(self):
        return self.pos == len(self.script)


# ----------------------------------------------------------------------------- aggregator I/O
class RecordingAggregator(Aggregator):
    """Ordinary Aggregator that records the matrices it receives and the vectors it returns."""

    def __init__(self, inner: Aggregator):
        super().__init__()
        self.inner = inner
        self.calls = []  # (matrix clone, returned vector object)
        # recorded from a forward hook, like a user's instrumentation of an nn.Module: an aggregator that is not *called*
        # (aggregator.forward(matrix) instead of aggregator(matrix)) records nothing and the checks report the call count
        self.register_forward_hook(self._record)

    def _record(self, module, inputs, out):
        self.calls.append((inputs[0].detach().clone(), out))

    def forward(self, matrix: Tensor) -> Tensor:
        return self.inner(matrix)


class FnAggregator(Aggregator):
    """Aggregator given by a Python function of the matrix (used for exact linear oracles)."""

    def __init__(self, fn):
        super().__init__()
        self.fn = fn

    def forward(self, matrix: Tensor) -> Tensor:
        return self.fn(matrix)


# ----------------------------------------------------------------------------- sweeps
class SweepRecorder:
    """Registers a hook on ``tensor``; every backward sweep through it appends the number of rows
    differentiated in that sweep (1 and ``batched=False`` for an unbatched sweep)."""

    def __init__(self, tensor: Tensor):
        self.sweeps = []
        self.handle = tensor.register_hook(self._hook)

    def _hook(self, grad):
        F = torch._C._functorch
        if F.is_batchedtensor(grad):
            bdim = F.maybe_get_bdim(grad)
            inner = F.get_unwrapped(grad)
            self.sweeps.append((int(inner.shape[bdim]), True))
        else:
            self.sweeps.append((1, False))
        return None

    def remove(self):
        self.handle.remove()


class NoVmapIdentity(torch.autograd.Function):
    """Identity whose backward goes through NumPy: fails under torch.vmap, fine otherwise."""

    @staticmethod
    def forward(ctx, x):
        return x.clone()

    @staticmethod
    def backward(ctx, g):
        return torch.from_numpy(g.detach().numpy().copy())


def all_orders(n):
    return list(itertools.permutations(range(n)))
