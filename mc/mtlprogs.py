"""Trunk/heads programs (DESIGN §2.2): trunk = a universe program whose designated values are the
features; heads drawn from a fixed menu of templates with analytic NumPy derivatives.

descriptor (JSON-able):
  {"trunk": prog, "feats": [value ids], "heads": [{"tpl": "H1", "f": 0}, ...]}
Head parameters are created per head: names t (same shape as the feature used), t0 (0-d), t1 (2,),
and one pool parameter U (0-d) shared by all heads of template H6.
"""
from __future__ import annotations

import itertools

import numpy as np

from . import programs as P

TEMPLATES = ("H1", "H2", "H3", "H4", "H5", "H6", "H7", "H8", "H9")
# H10's loss depends on the pool parameter U (which the H6 heads list) but does NOT list it: U must not receive H10's gradient
TEMPLATES_EXT = TEMPLATES + ("H10",)
# parameters of each template: list of (name, shape spec) ; shape spec "x" = shape of the feature used
PARAMS = {
    "H1": [("t", "x")],
    "H2": [("t0", ()), ("t1", (2,))],
    "H3": [("t", "x")],
    "H4": [],
    "H5": [("t", "x")],
    "H6": [("t", "x"), ("U", "pool")],
    "H7": [("t", "x")],
    "H8": [("t0", ())],
    "H10": [("t", "x")],
    "H9": [("t", "x")],  # a loss that ignores the features altogether (regulariser-like): its Jacobian row is zero
}


def param_values(shape, k):
    n = int(np.prod(shape)) if shape else 1
    vals = [round(0.4 + 0.31 * ((7 * k + 3 * j) % 9), 3) * (-1.0 if (k + j) % 4 == 1 else 1.0) for j in range(n)]
    return np.array(vals, dtype=np.float64).reshape(shape)


class MtlRef:
    """NumPy reference: losses, d loss_i / d feature_f, d loss_i / d own params, trunk Jacobians."""

    def __init__(self, desc, seed=0):
        self.desc = desc
        prog = desc["trunk"]
        self.t = P.Typed(prog)
        self.lv = P.leaf_values(self.t.shapes[: self.t.nleaves], seed)
        self.ref = P.RefRun(prog, self.lv)
        self.feats = list(desc["feats"])
        self.F = [self.ref.val[v] for v in self.feats]
        self.around_leaf = min(set().union(*[self.t.deps[v] for v in self.feats])) if self.feats else None
        # parameters
        self.params = []  # per head: list of (name, value)
        self.pool_U = param_values((), 99)
        for i, h in enumerate(desc["heads"]):
            x = self.F[h["f"]]
            ps = []
            for j, (name, sh) in enumerate(PARAMS[h["tpl"]]):
                if sh == "pool":
                    ps.append((name, self.pool_U))
                else:
                    ps.append((name, param_values(x.shape if sh == "x" else sh, 10 * i + j)))
            self.params.append(ps)

    def head(self, i):
        """Returns (loss, [dL/dF_f for every feature], {param name: dL/dparam})."""
        h = self.desc["heads"][i]
        f = h["f"]
        x = self.F[f]
        p = dict(self.params[i])
        dF = [np.zeros_like(y) for y in self.F]
        tpl = h["tpl"]
        if tpl == "H1":
            L, dF[f], dp = (x * p["t"]).sum(), p["t"] + 0 * x, {"t": x.copy()}
        elif tpl == "H2":
            L = x.sum() * p["t0"] + p["t1"].sum()
            dF[f] = np.full_like(x, float(p["t0"]))
            dp = {"t0": np.asarray(x.sum()), "t1": np.ones(2)}
        elif tpl == "H3":
            L, dF[f], dp = (np.sin(x) * p["t"]).sum(), np.cos(x) * p["t"], {"t": np.sin(x)}
        elif tpl == "H4":
            L, dF[f], dp = (x * x).sum(), 2 * x, {}
        elif tpl == "H5":
            g = 1 - f if len(self.F) > 1 else f
            L = (x * p["t"]).sum() + self.F[g].sum()
            dF[f] = dF[f] + p["t"]
            dF[g] = dF[g] + np.ones_like(self.F[g])
            dp = {"t": x.copy()}
        elif tpl == "H6":
            U = float(p["U"])
            L, dF[f], dp = (x * p["t"]).sum() * U, p["t"] * U, {"t": x * U, "U": np.asarray((x * p["t"]).sum())}
        elif tpl == "H7":
            lk = self.ref.val[self.around_leaf]
            L, dF[f], dp = (x * p["t"]).sum() + (lk * 3.0).sum(), p["t"] + 0 * x, {"t": x.copy()}
        elif tpl == "H8":
            t0 = float(p["t0"])
            L, dF[f], dp = x.sum() * t0 * t0, np.full_like(x, t0 * t0), {"t0": np.asarray(2 * t0 * x.sum())}
        elif tpl == "H9":
            L, dp = (p["t"] * p["t"]).sum(), {"t": 2 * p["t"]}
        elif tpl == "H10":  # "U" is reported for the callers that default tasks_params (then U is discovered and listed)
            U = float(self.pool_U)
            L, dF[f], dp = (x * p["t"]).sum() * U, p["t"] * U, {"t": x * U, "U": np.asarray((x * p["t"]).sum())}
        else:
            raise KeyError(tpl)
        return float(L), dF, dp

    def shared_jacobian(self, leaves):
        """Row i = gradient of loss_i w.r.t. the listed trunk leaves through the features only."""
        rows = []
        for i in range(len(self.desc["heads"])):
            _, dF, _ = self.head(i)
            row = np.zeros(sum(self.t.numel(l) for l in leaves))
            for fi, v in enumerate(self.feats):
                cot = dF[fi].reshape(-1)
                if leaves:
                    row = row + cot @ self.ref.jacobian([v], leaves)
            rows.append(row)
        return np.array(rows).reshape(len(rows), -1)


def build_torch(desc, seed=0, dtype="float64"):
    """Builds the real graph. Returns dict(vals, leaves, feats, losses, tparams (per head, list of tensors),
    tnames (per head), U, around_leaf)."""
    import torch

    dt = getattr(torch, dtype)
    ref = MtlRef(desc, seed)
    vals = P.build_torch(desc["trunk"], ref.lv, dtype)
    feats = [vals[v] for v in desc["feats"]]
    U = torch.tensor(ref.pool_U, dtype=dt, requires_grad=True)
    losses, tparams, tnames = [], [], []
    for i, h in enumerate(desc["heads"]):
        x = feats[h["f"]]
        p = {}
        for name, val in ref.params[i]:
            p[name] = U if name == "U" else torch.tensor(val, dtype=dt, requires_grad=True)
        tpl = h["tpl"]
        if tpl == "H1":
            L = (x * p["t"]).sum()
        elif tpl == "H2":
            L = x.sum() * p["t0"] + p["t1"].sum()
        elif tpl == "H3":
            L = (x.sin() * p["t"]).sum()
        elif tpl == "H4":
            L = (x * x).sum()
        elif tpl == "H5":
            g = 1 - h["f"] if len(feats) > 1 else h["f"]
            L = (x * p["t"]).sum() + feats[g].sum()
        elif tpl == "H6":
            L = (x * p["t"]).sum() * p["U"]
        elif tpl == "H7":
            L = (x * p["t"]).sum() + (vals[ref.around_leaf] * 3.0).sum()
        elif tpl == "H8":
            L = x.sum() * p["t0"] * p["t0"]
        elif tpl == "H9":
            L = (p["t"] * p["t"]).sum()
        elif tpl == "H10":
            L = (x * p["t"]).sum() * U
        losses.append(L)
        tparams.append([p[n] for n, _ in PARAMS[tpl]])
        tnames.append([n for n, _ in PARAMS[tpl]])
    return dict(vals=vals, feats=feats, losses=losses, tparams=tparams, tnames=tnames, U=U, ref=ref)


def head_assignments(ntasks, nfeat, menu=TEMPLATES, distinct_sorted_from=3):
    """All assignments of templates (and of the feature each head reads) to ntasks heads.
    For ntasks >= distinct_sorted_from only strictly increasing template tuples (stated bound)."""
    if ntasks >= distinct_sorted_from:
        tuples = list(itertools.combinations(menu, ntasks))
    else:
        tuples = list(itertools.product(menu, repeat=ntasks))
    out = []
    for tp in tuples:
        # feature read by head i: rotate through the features so that both are used
        for rot in range(nfeat):
            out.append([{"tpl": t, "f": (i + rot) % nfeat} for i, t in enumerate(tp)])
    return out


def valid_explicit(desc):
    """H7 reads a trunk leaf around the features: only meaningful with explicit parameter lists."""
    return True


def uses_around(desc):
    return any(h["tpl"] == "H7" for h in desc["heads"])
