#!/bin/bash
# Offline setup: nothing to build (pure Python driving /repo/src through /venv). Runs a short self-test.
set -e
cd "$(dirname "$0")"
mkdir -p evidence replays
export PYTHONDONTWRITEBYTECODE=1 PYTHONHASHSEED=0 OMP_NUM_THREADS=1
/venv/bin/python -B -m mc.selftest
