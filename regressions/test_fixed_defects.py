"""Plain replays (no explorer, no harness) of the genuine defects recorded in known_findings.json, one test per
defect, each on the specific input the check first reported. They pass on /repo HEAD and fail on the parent of the
corresponding `fix:` commit (`mutants/*revert*fix.diff` are the reverse patches).

    cd /verif && /venv/bin/python -m pytest -q regressions/ -p no:cacheprovider
    VERIF_REPO=<worktree> ... runs them against another tree (src/ is put first on sys.path).
"""
import os
import sys

sys.path.insert(0, os.path.join(os.environ.get("VERIF_REPO", "/repo"), "src"))

import pytest  # noqa: E402
import torch  # noqa: E402

from torchjd import backward, mtl_backward  # noqa: E402
from torchjd.aggregation import IMTLG, ConFIG, Sum, UPGrad  # noqa: E402


def test_c20_rejected_backward_changes_nothing():
    """ef380ae: backward(inputs=[leaf, non_leaf]) raised after writing leaf.grad."""
    a = torch.tensor([1.0, 2.0], requires_grad=True)
    h = a * 2.0  # non-leaf
    y = torch.stack([h.sum(), (h * h).sum()])
    with pytest.raises(ValueError):
        backward([y], UPGrad(), inputs=[a, h])
    assert a.grad is None


def test_c20_rejected_mtl_backward_changes_nothing():
    """ef380ae: a non-leaf shared parameter made mtl_backward raise after the task parameters' .grad were written."""
    a = torch.tensor([1.0, 2.0], requires_grad=True)
    nonleaf = a * 1.0
    f = nonleaf * 3.0
    p1 = torch.tensor([0.5, -1.0], requires_grad=True)
    p2 = torch.tensor([2.0, 1.0], requires_grad=True)
    losses = [(f * p1).sum(), (f * p2).sum()]
    with pytest.raises(ValueError):
        mtl_backward(losses, [f], Sum(), tasks_params=[[p1], [p2]], shared_params=[nonleaf])
    assert p1.grad is None and p2.grad is None and a.grad is None


def test_c19_nashmtl_reuses_weights():
    """7c5e4ef: history [M1, M1] with update_weights_every=2 raised TypeError on the second call."""
    from torchjd.aggregation import NashMTL

    A = NashMTL(n_tasks=2, update_weights_every=2)
    J = torch.tensor([[1.0, 2.0, 0.5], [-0.5, 1.0, 2.0]])
    x1 = A(J)
    x2 = A(J)  # reuses the weights of the first call
    assert isinstance(x2, torch.Tensor) and x2.shape == (3,)
    assert torch.allclose(x1, x2)


def test_c02_mtl_backward_accepts_generators():
    """ccb7db8: generators (module.parameters()) were exhausted by the overlap check: nothing was accumulated, no error."""
    trunk = torch.nn.Linear(2, 2)
    h1, h2 = torch.nn.Linear(2, 1), torch.nn.Linear(2, 1)
    x = torch.tensor([0.3, -0.7])
    f = trunk(x)
    losses = [h1(f).sum(), h2(f).sum()]
    mtl_backward(losses, f, Sum(), tasks_params=[h1.parameters(), h2.parameters()], shared_params=trunk.parameters())
    for mod in (trunk, h1, h2):
        for p in mod.parameters():
            assert p.grad is not None


@pytest.mark.parametrize("dtype,scale", [(torch.float32, 1e15), (torch.float64, 1e50)])
def test_c11_imtlg_large_scale(dtype, scale):
    """4fee6f4: absolute guard |sum v| < 1e-12 on a quantity of order 1/scale: zero output for big matrices."""
    J = torch.tensor([[-1.0]], dtype=dtype)
    x1 = IMTLG()(J)
    xs = IMTLG()(J * scale)
    assert float(x1) != 0.0
    assert float(xs) / scale == pytest.approx(float(x1), rel=1e-4)


def test_c11_imtlg_small_stationary():
    """4fee6f4: [[-1],[1]]*1e-12 is stationary at every scale: the output is 0, not -3e-12."""
    J = torch.tensor([[-1.0], [1.0]], dtype=torch.float64)
    assert float(IMTLG()(J)) == 0.0
    assert float(IMTLG()(J * 1e-12)) == 0.0


def test_c15_grad_without_outputs_is_zero():
    """d19b7f4: Grad([], inputs) returned torch.empty (uninitialised memory)."""
    from torchjd.autojac._transform import Grad, Gradients

    for n in (3, 1000, 100000):
        torch.full((n,), float("nan"))  # dirty the allocator's free list
        a = torch.ones(n, requires_grad=True)
        out = Grad([], [a])(Gradients({}))
        assert torch.equal(out[a], torch.zeros(n))


def test_c08_c10_config_zero_direction():
    """dcb7cf2: exact '== 0' test on pinv(unit rows) @ pref, which is zero only up to rounding."""
    pref = torch.tensor([1.0, 2.0, 3.0], dtype=torch.float64) / 6
    J = torch.tensor([[-1.0, -1.0, -1.0], [-1.0, -1.0, -1.0], [1.0, 1.0, 1.0]], dtype=torch.float64)
    x = ConFIG(pref_vector=pref)(J)
    # the row span is the line through (1,1,1)
    assert float((x - x.mean()).abs().max()) <= 1e-12
    J2 = torch.tensor([[-1.0, -1.0], [-1.0, -1.0], [1.0, 1.0]], dtype=torch.float64)
    x2 = ConFIG(pref_vector=pref)(J2)
    x2z = ConFIG(pref_vector=pref)(torch.cat([torch.zeros(3, 1, dtype=torch.float64), J2], dim=1))
    assert torch.allclose(x2z[1:], x2, atol=1e-12) and float(x2z[0]) == 0.0
    perm = [0, 2, 1]
    J3 = torch.tensor([[-1.0], [-1.0], [1.0]], dtype=torch.float64)
    assert torch.allclose(ConFIG(pref_vector=pref)(J3), ConFIG(pref_vector=pref[perm])(J3[perm]), atol=1e-12)


def test_c10_c11_imtlg_float32_stationary():
    """584d3c6: in float32 the zero sum of pinv(G) @ d is only zero up to ~1e-7: noise was normalised into weights."""
    J = torch.tensor([[-1.0], [1.0]])
    assert float(IMTLG()(J)) == 0.0 and float(IMTLG()(J.flip(0))) == 0.0
    J2 = torch.tensor([[-1.0, -1.0], [0.0, 1.0], [1.0, 0.0]])
    for t in (1.0, 3.0, 1e-3, 1e12):
        assert torch.equal(IMTLG()(J2 * t), torch.zeros(2))
