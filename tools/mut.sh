#!/bin/bash
# usage: tools/mut.sh <patch.diff> <ID> [extra check args]  -- applies the patch to /repo, runs the check, reverts
set -u
patch=$(realpath "$1"); id=$2; shift 2
git -C /repo apply "$patch" || { echo "APPLY FAILED"; exit 3; }
( cd /verif && ./check "$id" "$@" ) > /tmp/mut_$id.out 2>&1; rc=$?
git -C /repo checkout -- . 
grep -c '^VIOLATION' /tmp/mut_$id.out | sed "s|^|$(basename $patch) $id rc=$rc violations_lines=|"
grep -A1 '^VIOLATION' /tmp/mut_$id.out | head -4 | cut -c1-300
tail -1 /tmp/mut_$id.out | cut -c1-300
exit $rc
