#!/usr/bin/env python3
"""Regenerates /verif/MANIFEST.json from the SPEC of every check module present in /verif/checks and
validates it against the schema. Properties without a check module are listed under not_applicable."""
import ast
import json
import os
import sys

ROOT = os.path.dirname(os.path.dirname(os.path.abspath(__file__)))
sys.path.insert(0, ROOT)

DESIGN_REF = {f"C{i:02d}": f"DESIGN.md §3 C{i:02d}" for i in range(1, 21)}
TEXT = json.load(open(os.path.join(ROOT, "tools", "manifest_text.json")))
TECH = {
    "C01": "bounded-exhaustive enumeration of programs x configurations x set-iteration orders (choice points owned by a seam) on the real code, NumPy reference interpreter as oracle",
    "C02": "bounded-exhaustive enumeration of trunk/heads programs x configurations on the real code, NumPy reference as oracle",
    "C05": "bounded-exhaustive enumeration with a differential twin (torch.autograd on an identical graph)",
    "C06": "explicit-state search over operation histories on the live objects (state = .grad ledger), invariants on every transition",
    "C07": "exhaustive enumeration of all (rows, chunk size) configurations with sweep observation through hooks",
    "C12": "bounded-exhaustive enumeration of autograd DAGs against a syntactic reachability model, replayed on twin graphs",
    "C13": "exhaustive enumeration of call histories with a differential twin driven by torch.autograd, per-segment probes",
    "C14": "bounded-exhaustive enumeration of transform terms against a typing model",
    "C16": "fault enumeration: every corrupted-row subset x corruption assignment x configuration against reference models",
    "C18": "stateless choice-point exploration of every RNG draw schedule (replayed draws) against reference models",
    "C19": "exhaustive enumeration of call/reset histories on the real stateful object with differential oracles (fresh instance, k=1 reference)",
    "C20": "fault enumeration: every invalid-argument kind x position x set-iteration order x valid remainder, .grad snapshots",
}


def spec_of(path):
    """Reads the SPEC literal without importing torch."""
    tree = ast.parse(open(path).read())
    for node in tree.body:
        if isinstance(node, ast.Assign) and getattr(node.targets[0], "id", None) == "SPEC":
            return eval(compile(ast.Expression(node.value), path, "eval"), {"dict": dict})
    raise SystemExit(f"no SPEC in {path}")


def main():
    props = [json.loads(l) for l in open(os.path.join(ROOT, "properties.jsonl"))]
    checks, na = [], []
    for p in props:
        pid = p["id"]
        path = os.path.join(ROOT, "checks", pid.lower() + ".py")
        claimed = open(os.path.join(ROOT, "tools", "claimed.txt")).read().split()
        if not os.path.exists(path) or pid not in claimed:
            na.append(dict(property_id=pid, reason=TEXT.get(pid, {}).get("na_reason", "check not built yet in this session; no claim is made")))
            continue
        spec = spec_of(path)
        tx = TEXT.get(pid, {})
        checks.append(dict(
            property_id=pid,
            quick_cmd=f"./check {pid} --tier quick",
            thorough_cmd=f"./check {pid} --tier thorough",
            evidence_file=f"/verif/evidence/{pid}.json",
            replay_cmd_template=f"./check {pid} --replay {{path}}",
            engine="mc-explorer",
            level_claimed=dict(category=spec["level"], text=tx.get("text", spec["rule"]), design_ref=DESIGN_REF[pid]),
            level_note=tx.get("note", "; ".join(spec.get("assumptions", []))),
            technique=spec.get("technique") or TECH.get(pid, "bounded-exhaustive enumeration of a finite input/configuration alphabet on the real implementation against an exact reference model"),
        ))
    man = dict(
        version=1,
        setup_cmd="./setup.sh",
        hooks=dict(
            guard="TORCHJD_VERIF",
            enable="no source hooks are needed: all seams are installed from outside (module-namespace shadowing, tensor hooks); the guard name is reserved and unused",
            baseline_off_cmd="cd /repo && /venv/bin/python -m pytest -ra -q -p no:cacheprovider --timeout=900 --continue-on-collection-errors",
            source_commits=[],
            add_only=True,
        ),
        engines=[dict(
            name="mc-explorer",
            path="/verif/mc",
            serves_properties=[c["property_id"] for c in checks],
            kind_free_text="hand-written stateless/explicit-state explorers in Python driving the real torchjd code: E-enum (bounded-exhaustive "
                           "products of finite alphabets), E-choice (DFS over choice points: set-iteration orders, RNG draws), E-hist (operation "
                           "histories rebuilt by replay on fresh objects); reference models in NumPy",
        )],
        checks=checks,
        notes="See DESIGN.md. Exit codes: 0 held, 1 violation (VIOLATION line + replay file), 2 harness fault (fails closed, no VIOLATION line).",
        not_applicable=na,
    )
    out = os.path.join(ROOT, "MANIFEST.json")
    json.dump(man, open(out, "w"), indent=1)
    try:
        import jsonschema

        jsonschema.validate(man, json.load(open("/root/.vp/MANIFEST.schema.json")))
        print("MANIFEST.json valid;", len(checks), "checks,", len(na), "not claimed")
    except ImportError:
        print("MANIFEST.json written (jsonschema not importable here: validate with python3-vt)")


if __name__ == "__main__":
    main()
