#!/bin/bash
# usage: tools/run_all.sh [quick|thorough]   runs every claimed check, prints one line each, returns non-zero if any is not 0
tier=${1:-quick}; rc=0
for id in $(cat "$(dirname "$0")/claimed.txt"); do
  out=$(cd "$(dirname "$0")/.." && ./check $id --tier $tier 2>&1); r=$?
  echo "$id rc=$r $(echo "$out" | grep -E '^\[' | cut -c1-230)"
  [ $r -ne 0 ] && { rc=1; echo "$out" | grep -E 'VIOLATION|HARNESS|KNOWN' -A1 | head -6; }
done
exit $rc
