#!/usr/bin/env python3
"""Re-runs the quick check of a seeded change's property against the change (scratch worktree, tools/mutwt.sh) and updates
seeded/<name>/meta.json: check_result is replaced, the earlier result is kept under check_result_when_first_confirmed.
usage: tools/recheck_seed.py <name> [<name> ...]   |   tools/recheck_seed.py --missed"""
import glob, json, os, re, subprocess, sys
ROOT = os.path.dirname(os.path.dirname(os.path.abspath(__file__)))
names = sys.argv[1:]
if names == ["--missed"]:
    names = [os.path.basename(os.path.dirname(p)) for p in sorted(glob.glob(os.path.join(ROOT, "seeded", "*", "meta.json")))
             if not json.load(open(p))["check_result"]["caught"]]
for name in names:
    mp = os.path.join(ROOT, "seeded", name, "meta.json")
    m = json.load(open(mp))
    p = subprocess.run([os.path.join(ROOT, "tools", "mutwt.sh"), os.path.join(ROOT, "seeded", name, "patch.diff"), m["property"]],
                       capture_output=True, text=True)
    first = re.search(r"^VIOLATION.*\n\s+(.*)$", p.stdout, re.M)
    new = {"exit_code": p.returncode, "caught": p.returncode == 1, "first_violation": first.group(1)[:300] if first else ""}
    if not m["check_result"]["caught"] and "check_result_when_first_confirmed" not in m:
        m["check_result_when_first_confirmed"] = m["check_result"]
    m["check_result"] = new
    json.dump(m, open(mp, "w"), indent=1)
    print(name, new["exit_code"], new["first_violation"][:150])
