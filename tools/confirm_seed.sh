#!/bin/bash
# usage: tools/confirm_seed.sh <dir with patch.diff demo.py notes.md> <ID> <name>
# Confirms a seeded change in a scratch worktree of /repo HEAD: demo passes without / fails with the change, the whole
# test suite passes with it; then runs the quick check against it. Writes /verif/seeded/<name>/{patch.diff,demo.py,notes.md,meta.json}.
set -u
src=$(realpath "$1"); id=$2; name=$3
wt=$(mktemp -d /tmp/cs_XXXXXX); rmdir "$wt"
git -C /repo worktree add -q --detach "$wt" HEAD || exit 3
trap 'git -C /repo worktree remove --force "$wt" >/dev/null 2>&1; rm -rf "$wt" /tmp/ev_cs_$$' EXIT
run() { ( cd "$wt" && PYTHONPATH="$wt/src" PYTHONDONTWRITEBYTECODE=1 "$@" ); }
run /venv/bin/python -B "$src/demo.py" >/tmp/cs_demo0_$$.out 2>&1; d0=$?
if ! git -C "$wt" apply "$src/patch.diff" 2>/dev/null; then
  git -C "$wt" apply --3way "$src/patch.diff" 2>/dev/null || { echo "$name: PATCH DOES NOT APPLY ON HEAD"; exit 4; }
fi
git -C "$wt" diff HEAD -- src > /tmp/cs_patch_$$.diff
run /venv/bin/python -B "$src/demo.py" >/tmp/cs_demo1_$$.out 2>&1; d1=$?
suite=$(run /venv/bin/python -m pytest -q -p no:cacheprovider -n 4 tests 2>&1 | tail -1)
( cd /verif && VERIF_REPO="$wt" VERIF_EVIDENCE_DIR=/tmp/ev_cs_$$ ./check "$id" --workers ${VERIF_WORKERS:-8} ) > /tmp/cs_check_$$.out 2>&1; rc=$?
first=$(grep -A1 '^VIOLATION' /tmp/cs_check_$$.out | sed -n 2p | cut -c1-300)
echo "$name: demo_without=$d0 demo_with=$d1 suite='$suite' check_rc=$rc :: $first"
mkdir -p /verif/seeded/$name
cp /tmp/cs_patch_$$.diff /verif/seeded/$name/patch.diff; cp "$src/demo.py" "$src/notes.md" /verif/seeded/$name/ 2>/dev/null
python3 - "$name" "$id" "$d0" "$d1" "$suite" "$rc" "$first" <<'PY'
import json,sys
name,pid,d0,d1,suite,rc,first=sys.argv[1:8]
notes=open(f"/verif/seeded/{name}/notes.md").read() if True else ""
json.dump({"property":pid,"source":"fresh sub-agent given only the property text and a scratch worktree",
 "needs_to_manifest":notes.strip()[:2500],"confirmed":{"demo_exit_without_change":int(d0),"demo_exit_with_change":int(d1),"test_suite_with_change":suite,
 "commands":["python demo.py (PYTHONPATH=<worktree>/src)","pytest -q -n 4 tests","VERIF_REPO=<worktree> ./check %s --tier quick"%pid]},
 "check_result":{"exit_code":int(rc),"caught":int(rc)==1,"first_violation":first}}, open(f"/verif/seeded/{name}/meta.json","w"), indent=1)
PY
rm -f /tmp/cs_*_$$.out /tmp/cs_patch_$$.diff
