#!/bin/bash
# usage: tools/mutwt.sh <patch.diff> <ID> [extra check args]
# Applies the patch in a throw-away worktree of /repo (never touches /repo's working tree), runs the check
# against it (VERIF_REPO), removes the worktree. Evidence of such runs goes to a scratch directory.
set -u
patch=$(realpath "$1"); id=$2; shift 2
wt=$(mktemp -d /tmp/wt_XXXXXX); rmdir "$wt"
git -C /repo worktree add -q --detach "$wt" HEAD || exit 3
trap 'git -C /repo worktree remove --force "$wt" >/dev/null 2>&1; rm -rf "$wt" /tmp/ev_$$' EXIT
git -C "$wt" apply "$patch" 2>/dev/null || git -C "$wt" apply --3way "$patch" 2>/dev/null || { echo "APPLY FAILED $patch"; exit 3; }
out=/tmp/mutwt_${id}_$$.out
( cd /verif && VERIF_REPO="$wt" VERIF_EVIDENCE_DIR=/tmp/ev_$$ ./check "$id" "$@" ) > $out 2>&1; rc=$?
echo "$(basename $patch) $id rc=$rc violation_lines=$(grep -c '^VIOLATION' $out)"
grep -A1 '^VIOLATION' $out | head -4 | cut -c1-400
grep -E '^\[|HARNESS' $out | head -3 | cut -c1-300
rm -f $out
exit $rc
