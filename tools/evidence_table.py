#!/usr/bin/env python3
"""Prints a markdown table of what the last run of every check covered (from /verif/evidence/*.json)."""
import glob, json, os
ROOT = os.path.dirname(os.path.dirname(os.path.abspath(__file__)))
print("| check | level | tier | cases | executions of the real code | distinct outcomes | non-trivial | dropped by predicate | worst err/tol | wall s |")
print("|---|---|---|---|---|---|---|---|---|---|")
for f in sorted(glob.glob(os.path.join(ROOT, "evidence", "C*.json"))):
    d = json.load(open(f)); c = d["coverage"]
    print(f"| {d['property_id']} | {d['level']} | {d['tier']} | {c['evaluations']} | {c['transitions']} | {c['distinct_outcomes']} | {c['distinct_nontrivial']} | "
          f"{c['dropped_by_predicate']} | {c['worst_margin']:.3g} | {d['wall_s']:.0f} |")
