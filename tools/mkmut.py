#!/usr/bin/env python3
"""usage: tools/mkmut.py <name> <file relative to /repo> <old> <new> [<file> <old> <new> ...]
Creates mutants/<name>.diff (a textual replacement made in a scratch worktree; /repo is never touched)."""
import os, subprocess, sys, tempfile, shutil
name, rest = sys.argv[1], sys.argv[2:]
wt = tempfile.mkdtemp(prefix="mk_", dir="/tmp"); os.rmdir(wt)
subprocess.check_call(["git", "-C", "/repo", "worktree", "add", "-q", "--detach", wt, "HEAD"])
try:
    for i in range(0, len(rest), 3):
        f, old, new = rest[i:i+3]
        p = os.path.join(wt, f); s = open(p).read()
        old = old.encode().decode("unicode_escape"); new = new.encode().decode("unicode_escape")
        if s.count(old) != 1:
            sys.exit(f"pattern occurs {s.count(old)} times in {f}: {old!r}")
        open(p, "w").write(s.replace(old, new))
    d = subprocess.check_output(["git", "-C", wt, "diff"]).decode()
    out = os.path.join("/verif/mutants", name + ".diff"); open(out, "w").write(d)
    print("wrote", out, len(d.splitlines()), "lines")
finally:
    subprocess.call(["git", "-C", "/repo", "worktree", "remove", "--force", wt]); shutil.rmtree(wt, ignore_errors=True)
