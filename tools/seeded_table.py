#!/usr/bin/env python3
"""Writes /verif/SEEDED.md from seeded/*/meta.json + notes.md (first heading/line of what the change is)."""
import glob, json, os, re
ROOT = os.path.dirname(os.path.dirname(os.path.abspath(__file__)))
rows = []
for d in sorted(glob.glob(os.path.join(ROOT, "seeded", "*"))):
    mp = os.path.join(d, "meta.json")
    if not os.path.exists(mp):
        continue
    m = json.load(open(mp))
    files = sorted(set(re.findall(r"^\+\+\+ b/(\S+)", open(os.path.join(d, "patch.diff")).read(), re.M)))
    c = m["confirmed"]
    rows.append((m["property"], os.path.basename(d), ", ".join(f.replace("src/torchjd/", "") for f in files),
                 f"{c['demo_exit_without_change']}/{c['demo_exit_with_change']}", c["test_suite_with_change"].split(",")[0],
                 "caught" if m["check_result"]["caught"] else "MISSED", m["check_result"]["first_violation"].strip()[:110].replace("|", "/")))
lines = ["# Seeded changes (from fresh sub-agents given only a property text and a scratch worktree)", "",
         "Each change was confirmed in a scratch worktree of /repo HEAD by tools/confirm_seed.sh: the demonstration exits 0 without and 1 with the change,",
         "the whole repository suite passes with it, and the quick tier of the property's check was run against it (VERIF_REPO).",
         "What each change needs in order to manifest is in seeded/<name>/notes.md. Checks were strengthened where a change was first missed (DESIGN §7.4).", "",
         "| property | name | files changed | demo exit without/with | suite with change | quick check | first violation reported |", "|---|---|---|---|---|---|---|"]
for r in rows:
    lines.append("| " + " | ".join(r) + " |")
open(os.path.join(ROOT, "SEEDED.md"), "w").write("\n".join(lines) + "\n")
print(f"{len(rows)} seeded changes, {sum(1 for r in rows if r[5]=='caught')} caught")
