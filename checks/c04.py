"""C04 — non-conflicting aggregators never oppose an objective (DESIGN §3 C04).

E-enum over the alphabet the property names (ALL {-1,0,1} matrices up to 3x3) plus Near, D(seed), row
scalings L3^m and global scales, times the configuration alphabets
    UPGrad / DualProj : P(m) (non-negative preference vectors) x (norm_eps, reg_eps) ladder,
    MGDA              : max_iters in {1,2,3,5,20,100} x epsilon in {0, 1e-3} (and max_iters = 1000, epsilon = 0 on the canonical sublist),
    CAGrad            : c in {1, 1.5, 2, 10}.
Oracle, per entry i of J . A(J), with s = sigma_max(J) from a float64 NumPy SVD:
    UPGrad/DualProj : (J x)_i >= -reg_eps s^2 w_i - SLACK     (w = the weights the aggregator's weighting returned;
                      KKT of the regularised QP: the bound is attained on every inactive constraint)
    MGDA            : (J x)_i >= -s sqrt(max(0,|x|^2 - minnorm^2)) - SLACK   (minnorm^2 from the support-enumeration
                      reference), and |x|^2 - minnorm^2 <= 8 s^2/(max_iters+2) + SLACK when epsilon == 0 (Frank-Wolfe)
    CAGrad c >= 1   : (J x)_i >= -TOL_CAGRAD s^2   (conic solver tolerance, see TOL_CAGRAD)
    SLACK = 1e-12 s^2 max(1, |w|_1)  (rounding of the products that are summed; |w|_1 = 1 for MGDA)
Only matrices with s >= norm_eps are asserted (others counted in ``dropped``).
"""
from __future__ import annotations

import itertools
import os

import numpy as np

from mc import alphabets as A
from mc import refmodels as R
from mc.runner import HarnessError, digest

SPEC = dict(
    property_id="C04",
    level="exploration",
    rule=(
        "case = block of <= 12 matrices of the alphabet with one aggregator family (qp = UPGrad+DualProj, mgda, cagrad) and "
        "one mode (base configurations / row scalings L3^m / global scales); evaluation = one call of the real aggregator on "
        "one (matrix, scaling, configuration); every entry of J.A(J) is compared with the stated allowance; non-trivial = "
        "evaluations on a matrix with s >= norm_eps whose Gramian has a negative entry (two objectives genuinely conflict)"
    ),
    bound=dict(
        quick=(
            "ALL ternary matrices of shapes <= 2x3, 3x1, 3x2 (1 614) and the canonical sublist of 3x3 (457 classes under "
            "row/column permutation and column sign) for UPGrad/DualProj/MGDA; CAGrad on the canonical sublist of every shape "
            "(612); Near; D(seed) 3x4,4x3; row scalings L3^m on all 2-row ternary matrices (CAGrad: canonical 2-row); global "
            "scales {1e-3,1e6} on canonical/Near/D; MGDA max_iters=1000 on canonical matrices with m n <= 6"
        ),
        thorough=(
            "ALL 21 297 ternary matrices up to 3x3 for every aggregator and configuration; Near; D(seed) up to 5x4; row "
            "scalings L3^m on all ternary matrices up to 3x3 for UPGrad/DualProj/MGDA (MGDA on 3x3: max_iters=20, epsilon=0 on all, the default "
            "configuration on the canonical sublist) and on all shapes <= 3x2 plus canonical 3x3 for CAGrad; global scales {1e-3,1e6} on "
            "canonical/Near/D; MGDA max_iters=1000 on the canonical sublists of every shape"
        ),
    ),
    assumptions=[
        "matrices off the finite alphabet are not covered",
        "largest singular value computed by float64 NumPy SVD is the reference scale s",
        "CAGrad's allowance ('the conic solver's tolerance') is instantiated as 1e-6 s^2 (Clarabel feasibility/gap tolerance 1e-8 on the normalised problem times a safety factor)",
        "float64 only: the stated allowances contain no term for float32 rounding",
    ],
)

BLOCK = 12
DETERMINISM_SLICE = 8
# (norm_eps, reg_eps): the reg ladder, with asymmetric pairs so that a norm/reg swap is visible
EPS_PAIRS = [(1e-4, 1e-2), (1e-4, 1e-4), (1e-2, 1e-6), (1e-4, 1e-10)]
MGDA_ITERS = [1, 2, 3, 5, 20, 100]
MGDA_EPS = [0.0, 1e-3]
CAGRAD_C = [1.0, 1.5, 2.0, 10.0]
CAGRAD_NORM_EPS = 1e-4
GSCALES = [1e-3, 1e6]
TOL_CAGRAD = 1e-5
SLACK = 1e-12
SUB_ROUND = 1e-14
QP_COND = 3e-15


def _blocks(n, size):
    return [(lo, min(n, lo + size)) for lo in range(0, n, size)]


_CANON = {}


def _canon(m, n):
    if (m, n) not in _CANON:
        _CANON[(m, n)] = A.canonical_ternary(m, n)
    return _CANON[(m, n)]


def gen_cases(tier, seed):
    cases = []
    thorough = tier == "thorough"
    full_q = [(1, 1), (1, 2), (1, 3), (2, 1), (2, 2), (2, 3), (3, 1), (3, 2)]

    def add(src, m, n, N, fam, mode):
        for lo, hi in _blocks(N, BLOCK):
            cases.append(dict(src=src, m=m, n=n, lo=lo, hi=hi, fam=fam, mode=mode, seed=seed))

    for (m, n) in A.SHAPES_LE3:
        N = A.ternary_count(m, n)
        NC = len(_canon(m, n))
        full = thorough or (m, n) in full_q
        for fam in ("qp", "mgda"):
            if full:
                add("ternary", m, n, N, fam, "base")
            else:
                add("canon", m, n, NC, fam, "base")
            if m >= 2 and (thorough or m == 2):
                if fam == "mgda" and (m, n) == (3, 3):
                    # 472 392 scaled 3x3 matrices: the 20-iteration Frank-Wolfe configuration on all of them, the (slow) default
                    # configuration on the scalings of the canonical sublist
                    add("ternary", m, n, N, fam, "rows-fw20")
                    add("canon", m, n, NC, fam, "rows")
                else:
                    add("ternary", m, n, N, fam, "rows")
            add("canon", m, n, NC, fam, "gscale")
            if fam == "mgda" and m >= 2 and (thorough or m * n <= 6):
                add("canon", m, n, NC, fam, "long")  # a long budget makes the Frank-Wolfe bound tight (8 s^2/1002)
        # CAGrad (7 ms per call): quick tier on the canonical sublist only
        if thorough:
            add("ternary", m, n, N, "cagrad", "base")
        else:
            add("canon", m, n, NC, "cagrad", "base")
        if m >= 2:
            if thorough and m * n <= 6:
                add("ternary", m, n, N, "cagrad", "rows")
            elif thorough or m == 2:
                add("canon", m, n, NC, "cagrad", "rows")
        add("canon", m, n, NC, "cagrad", "gscale")
    nnear = len(A.near_cases())
    dshapes = [(3, 4), (4, 3)] if not thorough else [(3, 4), (4, 3), (4, 5), (5, 4)]
    for fam in ("qp", "mgda", "cagrad"):
        for mode in ("base", "rows", "gscale"):
            for lo, hi in _blocks(nnear, 6):
                cases.append(dict(src="near", m=0, n=0, lo=lo, hi=hi, fam=fam, mode=mode, seed=seed))
            for (m, n) in dshapes:
                if mode == "rows" and m > 3:
                    continue
                for lo, hi in _blocks(8, 4):
                    cases.append(dict(src="dense", m=m, n=n, lo=lo, hi=hi, fam=fam, mode=mode, seed=seed))
    for fam in ("qp", "mgda", "cagrad"):
        for lo, hi in _blocks(len(weak_cases()), 3):
            cases.append(dict(src="weak", m=0, n=0, lo=lo, hi=hi, fam=fam, mode="base", seed=seed))
    for i in range(len(imbalanced_cases())):
        cases.append(dict(src="imb", m=0, n=0, lo=i, hi=i + 1, fam="mgda", mode="verylong", seed=seed))
        cases.append(dict(src="imb", m=0, n=0, lo=i, hi=i + 1, fam="mgda", mode="base", seed=seed))
    only = os.environ.get("VERIF_C04_ONLY")  # development aid (mutant triage): restrict to some families; never set in real runs
    if only:
        cases = [c for c in cases if c["fam"] in only.split(",")]
    return cases


def weak_cases():
    """One dominant direction plus objectives that are nearly neutral on it and conflict with each other in a direction that is
    100-1000 times weaker (added after a seeded change - CAGrad's reduced problem truncated to the directions above norm_eps -
    was missed): ill-conditioned but of unambiguous rank."""
    out = []
    for d in (1e-3, 3e-3, 1e-2):
        for (a, b, c) in ((4.0, 5.5, 2.0), (0.0, 1.0, 0.0), (1.0, 1.0, -1.0)):
            out.append(np.array([[1.0, 0.0], [a * d, b * d], [c * d, -b * d]]))
            out.append(np.array([[1.0, 0.0, 0.0], [a * d, b * d, 0.0], [c * d, -b * d, d]]))
    return out


def imbalanced_cases():
    """Rows of very different lengths: a short row well aligned with the mean of the rows (Frank-Wolfe's first step lands on that
    vertex with gamma = 1) which conflicts with another row (the vertex is not the min-norm point). Added after a seeded change -
    stopping at the first vertex reached with gamma = 1 - was missed: the convergence-rate bound only sees it with a large budget."""
    out = []
    for k in (2.0, 3.0, 4.0):
        out.append(np.array([[1.0, 0.0], [-1.0, k], [2 * k, k]]))
        out.append(np.array([[2 * k, k, 0.0], [1.0, 0.0, 0.0], [-1.0, k, 1.0]]))
    return out


def _matrices(case):
    lo, hi = case["lo"], case["hi"]
    if case["src"] == "weak":
        return weak_cases()[lo:hi]
    if case["src"] == "imb":
        return imbalanced_cases()[lo:hi]
    if case["src"] == "ternary":
        return [A.ternary_index(case["m"], case["n"], i) for i in range(lo, hi)]
    if case["src"] == "canon":
        return _canon(case["m"], case["n"])[lo:hi]
    if case["src"] == "near":
        return A.near_cases()[lo:hi]
    return A.dense(case["seed"], case["m"], case["n"], 8)[lo:hi]


def _variants(J0, mode):
    """The (label, matrix) variants of one alphabet matrix for a mode."""
    m = J0.shape[0]
    if mode in ("base", "long", "verylong"):
        return [("1", J0)]
    if mode == "gscale":
        return [(f"t={t:g}", J0 * t) for t in GSCALES]
    assert mode.startswith("rows")
    out = []
    for c in itertools.product(A.L3, repeat=m):
        if len(set(c)) == 1:
            continue
        out.append(("c=" + ",".join(f"{v:g}" for v in c), np.array(c)[:, None] * J0))
    return out


def _configs(fam, mode, m):
    if fam == "qp":
        P = A.pref_vectors(m)
        if mode == "base":
            return [(which, ne, re_, u) for which in ("upgrad", "dualproj") for (ne, re_) in EPS_PAIRS for u in P]
        return [(which, ne, re_, u) for which in ("upgrad", "dualproj") for (ne, re_, u) in ((1e-4, 1e-4, None), (1e-2, 1e-6, P[-2]))]
    if fam == "mgda":
        if mode == "base":
            return [("mgda", it, ep) for it in MGDA_ITERS for ep in MGDA_EPS]
        if mode == "rows-fw20":
            return [("mgda", 20, 0.0)]
        if mode == "long":
            return [("mgda", 1000, 0.0)]
        if mode == "verylong":
            return [("mgda", 20000, 0.0)]
        return [("mgda", 20, 0.0), ("mgda", 100, 1e-3)] if mode == "rows" else [("mgda", 5, 0.0), ("mgda", 100, 0.0), ("mgda", 100, 1e-3)]
    if mode == "base":
        return [("cagrad", c) for c in CAGRAD_C]
    return [("cagrad", 1.0), ("cagrad", 2.0)] if mode.startswith("rows") else [("cagrad", c) for c in CAGRAD_C]


def _call(agg, Jt):
    """Runs the real aggregator, returns (x, w) as float64 arrays (w = what agg.weighting returned)."""
    got = []
    h = agg.weighting.register_forward_hook(lambda mod, inp, out: got.append(out))
    try:
        x = agg(Jt)
    finally:
        h.remove()
    if len(got) != 1:
        raise HarnessError(f"weighting called {len(got)} times")
    return x, got[0]


def _min_norm(Jd, s):
    """(upper, lower, certified): bracket of minnorm^2 = min |p|^2 over conv(rows). The support enumeration on J/s returns a
    point p of the hull, so |p|^2 is an upper bound; with eta = max(0, |p|^2 - min_i <g_i, p>) (defect of the optimality
    condition <g_i, p> >= |p|^2) one has <p*, p> >= |p|^2 - eta, hence minnorm^2 >= |p|^2 - 2 eta. Certified iff eta <= 1e-9."""
    Jn = Jd / s
    w, p, val = R.min_norm_point(Jn)
    if w is None:
        return None, None, False
    p = w @ Jn
    val = float(p @ p)
    eta = max(0.0, float(val - np.min(Jn @ p)))
    return val * s * s, max(0.0, val - 2 * eta) * s * s, eta <= 1e-9


def check_one(J, cfg, ref_cache, key):
    """One evaluation. Returns (viol|None, {oracle: err/tol}, nontrivial, outcome) ; outcome 'dropped' = predicate."""
    import torch
    from torchjd.aggregation import MGDA, CAGrad, DualProj, UPGrad

    Jt = torch.tensor(J, dtype=torch.float64)
    Jd = Jt.numpy()
    m = J.shape[0]
    s = A.sigma_max(Jd)
    which = cfg[0]
    if which in ("upgrad", "dualproj"):
        _, ne, re_, u = cfg
        norm_eps = ne
        pref = None if u is None else torch.tensor(u, dtype=torch.float64)
        agg = (UPGrad if which == "upgrad" else DualProj)(pref_vector=pref, norm_eps=ne, reg_eps=re_)
        label = f"{which}(norm_eps={ne},reg_eps={re_},pref={None if u is None else u.tolist()})"
    elif which == "mgda":
        _, it, ep = cfg
        norm_eps = 0.0
        agg = MGDA(ep, it)  # positional, documented order (epsilon, max_iters); C18 builds it by keyword
        label = f"mgda(max_iters={it},epsilon={ep})"
    else:
        _, c = cfg
        norm_eps = CAGRAD_NORM_EPS
        agg = CAGrad(c, norm_eps)  # positional, documented order (c, norm_eps); C18 builds it by keyword
        label = f"cagrad(c={c})"
    if s < norm_eps or (which != "mgda" and s == 0.0):
        return None, {}, False, "dropped"
    desc = f"J={J.tolist()} {label} s={s:.4g}"
    try:
        x, w = _call(agg, Jt)
    except HarnessError:
        raise
    except Exception as e:
        return dict(sig=f"exception:{which}:{type(e).__name__}", msg=f"{desc}: {e!r}"[:500]), {}, False, "exc"
    if x.dtype != torch.float64 or tuple(x.shape) != (J.shape[1],) or not bool(torch.isfinite(x).all()):
        return dict(sig=f"bad-output:{which}", msg=f"{desc}: x={x}"), {}, False, "exc"
    x = x.numpy()
    w = w.double().numpy()
    s2 = s * s
    wsc = max(1.0, float(np.abs(w).sum()))
    slack = SLACK * s2 * wsc if s > 0 else 0.0
    Jx = Jd @ x
    mg = {}
    viol = None
    conflict = bool(((Jd @ Jd.T) < 0).any())
    if which in ("upgrad", "dualproj"):
        allow = re_ * s2 * w
        # quadprog works with the inverse Cholesky factor of G + reg I: its residual is eps * sqrt(cond) = eps / sqrt(reg_eps)
        # on singular Gramians (measured 0.4e-16/sqrt(reg_eps) s^2 along the whole ladder), not eps
        slack = (SLACK + QP_COND / np.sqrt(re_)) * s2 * wsc
        exc = float(np.max(-allow - Jx))  # > 0 means the stated allowance is exceeded
        mg["nonconflict"] = max(0.0, exc) / slack
        # how close the tightest entry is to its bound (0 = attained): reported, not asserted
        if exc > slack:
            i = int(np.argmax(-allow - Jx))
            viol = dict(sig=f"conflict:{which}", msg=f"{desc}: (Jx)[{i}]={Jx[i]:.6g} < -reg_eps s^2 w_i={-allow[i]:.6g} (w={w.tolist()}) excess/slack={exc / slack:.3g}")
    elif which == "mgda":
        if key not in ref_cache:
            ref_cache[key] = _min_norm(Jd, s) if s > 0 else (0.0, 0.0, True)
        mn2, mn2_lo, cert = ref_cache[key]
        if not cert:
            return None, {}, False, "dropped"
        nx2 = float(x @ x)
        sub = nx2 - mn2  # lower estimate of the sub-optimality (mn2 is an upper bound of minnorm^2)
        # weights on the simplex is C18; here only what C04 states. The allowance uses the upper estimate of the
        # sub-optimality plus the rounding of the difference of two numbers of size s^2 (1e-14 s^2 under the root)
        allow = s * np.sqrt(max(0.0, nx2 - mn2_lo + SUB_ROUND * s2))
        exc = float(np.max(-allow - Jx)) if m else 0.0
        if s > 0:
            mg["nonconflict"] = max(0.0, exc) / slack
            if exc > slack:
                i = int(np.argmax(-allow - Jx))
                viol = dict(sig="conflict:mgda", msg=f"{desc}: (Jx)[{i}]={Jx[i]:.6g} < -s sqrt(|x|^2-minnorm^2)={-allow:.6g} (|x|^2={nx2:.6g}, minnorm^2={mn2:.6g})")
            if ep == 0.0:
                bound = 8.0 * s2 / (it + 2)
                mg["fw-bound"] = max(0.0, sub) / (bound + slack)
                if sub > bound + slack and viol is None:
                    viol = dict(sig="frank-wolfe-bound:mgda", msg=f"{desc}: |x|^2-minnorm^2={sub:.6g} > 8 s^2/(max_iters+2)={bound:.6g} (x={x.tolist()}, minnorm^2={mn2:.6g})")
        elif np.any(x != 0):
            viol = dict(sig="conflict:mgda", msg=f"{desc}: zero matrix, x={x.tolist()}")
    else:
        # x = g0 + kappa g_w, kappa = c|g0|/|g_w| = sum(w) - 1 (w_opt sums to 1): an error dw of the conic solver in w_opt moves
        # J x by at most kappa s^2 |dw|, so the solver tolerance enters multiplied by (1 + kappa)
        kappa = max(0.0, float(w.sum()) - 1.0)
        mg["info:kappa(not a margin)"] = kappa
        tol = TOL_CAGRAD * s2 * (1.0 + kappa)
        exc = float(np.max(-Jx))
        mg["nonconflict"] = max(0.0, exc) / tol
        if not (exc <= tol):  # NaN-safe
            i = int(np.argmax(-Jx))
            viol = dict(sig="conflict:cagrad", msg=f"{desc}: (Jx)[{i}]={Jx[i]:.6g} < -{TOL_CAGRAD} (1+kappa) s^2 = {-tol:.6g} (kappa={kappa:.4g}, x={x.tolist()})")
    out = digest([which, np.round(x / s, 6).tolist() if s > 0 else 0])
    return viol, mg, conflict, out


def _buffer_reuse(mats, fam, viol):
    """The matrices of the block are copied one after the other into ONE pre-allocated tensor (as a training loop re-fills a Jacobian
    buffer) and aggregated by ONE instance: every result must be bit-identical to the result of a new instance on a new tensor (added
    after a seeded change - a cache keyed on the identity of the matrix tensor - was missed)."""
    import torch
    from torchjd import aggregation as T

    mk = {"qp": [lambda: T.UPGrad(), lambda: T.DualProj()], "mgda": [lambda: T.MGDA()], "cagrad": [lambda: T.CAGrad(c=1.0)]}[fam]
    execs = 0
    shapes = sorted({M.shape for M in mats})
    for shp in shapes:
        block = [M for M in mats if M.shape == shp and np.any(M)]
        if len(block) < 2:
            continue
        for make in mk:
            agg, buf = make(), torch.empty(shp, dtype=torch.float64)
            for J in block[:12]:
                buf.copy_(torch.tensor(J, dtype=torch.float64))
                try:
                    x = agg(buf).numpy().copy()
                    y = make()(torch.tensor(J, dtype=torch.float64)).numpy()
                except Exception:
                    continue  # exceptions are reported by the main loop
                execs += 2
                if x.tobytes() != y.tobytes():
                    viol.append(dict(sig=f"result-depends-on-tensor-identity:{type(agg).__name__}", cls=f"bufreuse:{type(agg).__name__}",
                                     msg=f"{type(agg).__name__}: J={J.tolist()} copied into a re-used buffer gives {x.tolist()}, on a new tensor {y.tolist()}"))
                    break
    return execs


def run_case(case):
    mats = _matrices(case)
    fam, mode = case["fam"], case["mode"]
    viol, outcomes, execs, nontriv, dropped, margin, maxima = [], set(), 0, 0, 0, 0.0, {}
    counters = {}
    ref_cache = {}
    for mi, J0 in enumerate(mats):
        cfgs = _configs(fam, mode, J0.shape[0])
        for (vl, J) in _variants(J0, mode):
            for cfg in cfgs:
                v, mg, nt, out = check_one(J, cfg, ref_cache, (mi, vl))
                execs += 1
                if out == "dropped":
                    dropped += 1
                    continue
                if cfg[0] in ("upgrad", "dualproj"):
                    tag = f"{cfg[0]}:reg={cfg[2]}"
                elif cfg[0] == "mgda":
                    tag = f"mgda:eps={cfg[2]}"
                else:
                    tag = f"cagrad:c={cfg[1]}"
                for k, val in mg.items():
                    kk = f"{k}:{tag}:{mode}"
                    maxima[kk] = max(maxima.get(kk, 0.0), val)
                    if not k.startswith("info:"):
                        margin = max(margin, val)
                nontriv += int(nt)
                outcomes.add(out)
                counters[f"evals:{cfg[0]}"] = counters.get(f"evals:{cfg[0]}", 0) + 1
                if v is not None:
                    v["cls"] = v["sig"] + ":" + tag + ":" + mode
                    viol.append(v)
    if mode == "base":
        execs += _buffer_reuse(mats, fam, viol)
    return dict(
        viol=viol, execs=execs, outcomes=sorted(outcomes), nontrivial=nontriv, dropped=dropped, margin=margin, maxima=maxima, counters=counters
    )
