"""C14 — transform pipelines are key-typed: ill-formed ones cannot be built or run (DESIGN §3 C14).

E-enum over transform TERMS of the real library classes Init, Diagonalize, Accumulate, Select, Stack,
Conjunction (`|`), Composition (`<<`) over a universe of 3 key tensors (shapes (), (2,), (2,3)).

The model is `sig` (the 25-line typing function: term -> (required, output) key sets or None = ill-formed)
and `app` (abstract application: (dict type, key set, number of rows) -> result | VE | ILL). It never looks
at the library. Every constructor call and every application of the real code is compared with it.

Term syntax (tuples; key sets are bit masks over the 3 keys):
    ('I',S) Init   ('D',S) Diagonalize (keys in index order)   ('A',S) Accumulate   ('S',K,R) Select(K, R)
    ('St',(t..)) Stack   ('Cj',(t..)) Conjunction   ('Co',outer,inner) Composition
"""
from __future__ import annotations

import itertools
from functools import lru_cache

from mc.runner import digest

SPEC = dict(
    property_id="C14",
    level="model_checking",
    rule=(
        "case = one block of terms (atoms; depth 2: all compositions/stacks/conjunctions with a fixed first atom; depth 3: all "
        "compositions / pairs / triples with a fixed first representative; the three algebraic laws with a fixed first operand; the "
        "dictionary types). Every term is constructed on the real classes (execution), every well-formed one is applied to dictionaries "
        "of every key set (executions). non-trivial = distinct terms of depth >= 2 that are either rejected at construction, or "
        "accepted and applied successfully with a non-empty result or an Accumulate side effect; plus accepted/rejected dictionary "
        "constructions and mutator attempts"
    ),
    bound=dict(
        quick="3 keys; all 88 atoms (incl. 37 ill-formed Select); depth 2 = ALL compositions of atoms and ALL stacks/conjunctions of 0..3 "
              "atoms (273 209 constructions), each well-formed one applied to 8 key sets x 5 dict types; depth 3 = children taken modulo "
              "signature (smallest and largest term per (required, output, behaviour on each dict type incl. row count) class of depth<=2 "
              "terms: 534 representatives): all compositions and all 2-member stacks/conjunctions of representatives, 3-member ones over "
              "the 2 representatives per (required, output) class (<= 128); laws: (a<<b)<<c vs a<<(b<<c) over all atom triples "
              "(constructibility) and over atoms + (required,output)-representatives (results), a|b vs b|a over all representative pairs, "
              "(a|b)|c vs a|(b|c) vs Conjunction([a,b,c]) over all atom triples; 7 mutator kinds x 6 dict types; 7x7 (key shape, value "
              "shape) pairs and all 2-entry dictionaries over them x 6 dict types",
        thorough="additionally: every well-formed 3-member stack/conjunction of the 534 behaviour representatives is built and applied; "
                 "conjunction associativity over all (required,output)-representative triples and over all well-formed triples of the "
                 "534 behaviour representatives",
    ),
    assumptions=[
        "Grad/Jac/Aggregate are not part of the term language here (C15); Diagonalize lists its keys in index order",
        "Accumulate keys are leaf tensors requiring grad; .grad is reset to None before every application",
        "applications whose dictionary type contradicts the transform's annotated input type (Diagonalize/Accumulate/Stack members fed "
        "something that is not a Gradients) are not asserted beyond the key check (model verdict ILL; counted in dropped)",
        "depth 3 is explored modulo the signature classes; the quotient is justified by the depth-2 run, where no quotient is taken",
        "depth-3 terms: each of the 7 wrong key sets is applied with one dict type (rotating with the key set), the required key set with "
        "every dict type; atoms and depth-2 terms get the full 8 key sets x 5 dict types product",
        "torch.Tensor.__repr__ is replaced by a cheap one while a case runs (the library prints the key tensors into every ValueError)",
        "ValueError on the REQUIRED key set is compared with the model too (Diagonalize of no key; Jacobians union with unequal row "
        "counts): the statement only claims 'wrong keys => ValueError', the converse does not hold in the code",
    ],
    min_outcomes=20,
)

KEY_SHAPES = ((), (2,), (2, 3))
NUMEL = (1, 2, 6)
TYPES = ("G", "J", "V", "M", "E")  # Gradients, Jacobians, GradientVectors, JacobianMatrices, EmptyTensorDict ('T' = TensorDict)
M_ROWS = 2  # first dimension of the Jacobians / JacobianMatrices given as inputs


def numel(mask):
    return sum(NUMEL[i] for i in range(3) if mask >> i & 1)


# ============================================================================= the model
@lru_cache(maxsize=300000)
def sig(t):
    """Typing model: (required keys, output keys) of a term, or None when it cannot be built."""
    k = t[0]
    if k == "I":
        return (0, t[1])
    if k == "D":
        return (t[1], t[1])
    if k == "A":
        return (t[1], 0)
    if k == "S":
        return (t[2], t[1]) if t[1] & ~t[2] == 0 else None
    if k == "Co":
        a, b = sig(t[1]), sig(t[2])
        return (b[0], a[1]) if a and b and a[0] == b[1] else None
    subs = [sig(x) for x in t[1]]
    if any(s is None for s in subs):
        return None
    if not subs:
        return (0, 0)
    if any(s[0] != subs[0][0] for s in subs):
        return None
    out = 0
    for s in subs:
        if k == "Cj" and out & s[1]:
            return None
        out |= s[1]
    return (subs[0][0], out)


def lca(a, b):
    """Least common ancestor in the lattice E < {G, J, V, M} < T."""
    return a if a == b else b if a == "E" else a if b == "E" else "T"


@lru_cache(maxsize=300000)
def app(t, T, keys, rows):
    """Abstract application of a well-formed term to a dictionary of type T with key set ``keys`` (``rows`` = first
    dimension of its values when T is J or M and keys is non-empty). Returns ('ok', type, keys, rows), 'VE'
    (ValueError) or 'ILL' (the dictionary type contradicts the annotated input type: nothing is asserted)."""
    req, out = sig(t)
    if keys != req:
        return "VE"
    k = t[0]
    if k == "I":
        return ("ok", "G", t[1], None)
    if k == "D":
        if T not in "GE":
            return "ILL"
        return ("ok", "J", t[1], numel(t[1])) if t[1] else "VE"  # Diagonalize of nothing: torch.cat([]) is a ValueError
    if k == "A":
        return ("ok", "E", 0, None) if T in "GE" else "ILL"
    if k == "S":
        return ("ok", T, t[1], rows if t[1] else None)
    if k == "Co":
        r = app(t[2], T, keys, rows)
        return r if r in ("VE", "ILL") else app(t[1], *r[1:])
    rs = [app(x, T, keys, rows) for x in t[1]]
    if "ILL" in rs:
        return "ILL"
    if "VE" in rs:
        return "VE"
    ks = 0
    for r in rs:
        ks |= r[2]
    if k == "St":
        if any(r[1] not in "GE" for r in rs):
            return "ILL"
        return ("ok", "J", ks, len(rs) if ks else None)
    ty = "E"
    for r in rs:
        ty = lca(ty, r[1])
    rw = {r[3] for r in rs if r[3] is not None}
    if ty in "JM" and len(rw) > 1:
        return "VE"  # Jacobians / JacobianMatrices with unequal first dimensions cannot be created
    return ("ok", ty, ks, (min(rw) if rw and ty in "JM" else None))


@lru_cache(maxsize=300000)
def accs(t):
    """Keys whose .grad is written when the term is applied successfully (every sub-transform runs exactly once)."""
    k = t[0]
    if k == "A":
        return t[1]
    if k in "IDS":
        return 0
    r = 0
    for x in (t[1:] if k == "Co" else t[1]):
        r |= accs(x)
    return r


def size(t):
    if t[0] in "IDAS":
        return 1
    return 1 + sum(size(x) for x in (t[1:] if t[0] == "Co" else t[1]))


def in_types(req):
    return TYPES if req == 0 else TYPES[:4]


def behaviour(t):
    req, out = sig(t)
    return (req, out) + tuple(app(t, T, req, (M_ROWS if T in "JM" and req else None)) for T in in_types(req))


def tstr(t):
    k = t[0]
    s = lambda m: "{" + ",".join(str(i) for i in range(3) if m >> i & 1) + "}"  # noqa: E731
    if k in "IDA":
        return {"I": "Init", "D": "Diag", "A": "Acc"}[k] + s(t[1])
    if k == "S":
        return f"Sel({s(t[1])},{s(t[2])})"
    if k == "Co":
        return f"({tstr(t[1])} << {tstr(t[2])})"
    return ("Stack" if k == "St" else "Conj") + "[" + ", ".join(tstr(x) for x in t[1]) + "]"


# ============================================================================= term universe (pure Python, no torch)
ATOMS = tuple([("I", s) for s in range(8)] + [("D", s) for s in range(8)] + [("A", s) for s in range(8)]
              + [("S", k, r) for r in range(8) for k in range(8)])
WF_ATOMS = tuple(a for a in ATOMS if sig(a))

_UNIV = {}


def universe():
    """Representatives of the signature classes of all well-formed terms of depth <= 2."""
    if _UNIV:
        return _UNIV
    d2 = [("Co", a, b) for a in WF_ATOMS for b in WF_ATOMS if sig(("Co", a, b))]
    for kind in ("St", "Cj"):
        for n in range(4):
            for ms in itertools.product(WF_ATOMS, repeat=n):
                if n and any(sig(m)[0] != sig(ms[0])[0] for m in ms):
                    continue
                if sig((kind, ms)):
                    d2.append((kind, ms))
    rich, coarse = {}, {}
    for t in list(WF_ATOMS) + d2:
        rich.setdefault(behaviour(t), []).append(t)
        coarse.setdefault(sig(t), []).append(t)
    key = lambda t: (size(t), repr(t))  # noqa: E731

    def reps(classes):
        out = []
        for c in sorted(classes, key=repr):
            v = sorted(classes[c], key=key)
            out.append(v[0])
            if v[-1] != v[0]:
                out.append(v[-1])
        return out

    _UNIV.update(n_wf_d2=len(d2), rich=reps(rich), coarse=reps(coarse), n_rich=len(rich), n_coarse=len(coarse))
    # pool for the composition law: atoms and coarse representatives
    pool = list(WF_ATOMS) + [t for t in _UNIV["coarse"] if t not in WF_ATOMS]
    _UNIV["pool"] = pool
    return _UNIV


def gen_cases(tier, seed):
    u = universe()
    cases = [dict(kind="dicts", part=p, seed=seed) for p in range(6)]
    cases.append(dict(kind="atoms", seed=seed))
    cases.append(dict(kind="d2empty", seed=seed))
    for i in range(len(WF_ATOMS)):
        cases.append(dict(kind="d2co", first=i, seed=seed))
        cases.append(dict(kind="d2n", ctor="St", first=i, seed=seed))
        cases.append(dict(kind="d2n", ctor="Cj", first=i, seed=seed))
        cases.append(dict(kind="law_co_atoms", first=i, seed=seed))
        cases.append(dict(kind="law_cj", pool="atoms", first=i, seed=seed))
    nr = len(u["rich"])
    for lo in range(0, nr, 2):
        cases.append(dict(kind="d3co", lo=lo, hi=min(nr, lo + 2), seed=seed))
        cases.append(dict(kind="d3pair", ctor="St", lo=lo, hi=min(nr, lo + 2), seed=seed))
        cases.append(dict(kind="d3pair", ctor="Cj", lo=lo, hi=min(nr, lo + 2), seed=seed))
    for i in range(len(u["coarse"])):
        cases.append(dict(kind="d3tri", ctor="St", first=i, seed=seed))
        cases.append(dict(kind="d3tri", ctor="Cj", first=i, seed=seed))
    for i in range(len(u["pool"])):
        cases.append(dict(kind="law_co", first=i, seed=seed))
    if tier == "thorough":
        for i in range(nr):
            cases.append(dict(kind="d3tri_rich", ctor="St", first=i, seed=seed))
            cases.append(dict(kind="d3tri_rich", ctor="Cj", first=i, seed=seed))
        for i in range(len(u["coarse"])):
            cases.append(dict(kind="law_cj", pool="coarse", first=i, seed=seed))
        for i in range(nr):
            cases.append(dict(kind="law_cj", pool="rich", first=i, seed=seed))
    return cases


# ============================================================================= the real objects
class World:
    """Key tensors, the dictionaries given as inputs and the constructors of the real transforms."""

    def __init__(self, seed):
        import torch
        from torchjd.autojac import _transform as TR

        self.torch, self.TR = torch, TR
        self.K = [torch.tensor(0.5 + i, dtype=torch.float64).expand(s).clone().requires_grad_() for i, s in enumerate(KEY_SHAPES)]
        self.idx = {id(k): i for i, k in enumerate(self.K)}
        self.cls = dict(G=TR.Gradients, J=TR.Jacobians, V=TR.GradientVectors, M=TR.JacobianMatrices, E=TR.EmptyTensorDict, T=TR.TensorDict)
        self.name = {v: k for k, v in self.cls.items()}
        self.inputs = {}
        base = 1.0 + (seed % 8) * 0.25
        for ks in range(8):
            for T in TYPES:
                if T == "E" and ks:
                    continue
                d = {}
                for i in range(3):
                    if ks >> i & 1:
                        n = NUMEL[i]
                        shape = dict(G=KEY_SHAPES[i], J=(M_ROWS,) + KEY_SHAPES[i], V=(n,), M=(M_ROWS, n), E=())[T]
                        cnt = 1
                        for s in shape:
                            cnt *= s
                        d[self.K[i]] = (base + 10.0 * i + torch.arange(cnt, dtype=torch.float64)).reshape(shape)
                self.inputs[(T, ks)] = self.cls[T](d)
        self.built = {}

    def keys(self, mask):
        return [self.K[i] for i in range(3) if mask >> i & 1]

    def mask(self, tensors):
        m = 0
        for x in tensors:
            m |= 1 << self.idx[id(x)]  # KeyError = a tensor that is not a key of the universe: harness sees it as a violation
        return m

    def construct(self, t):
        """Builds term ``t`` from (cached) real children. Returns the transform; raises what the library raises."""
        if t in self.built:
            return self.built[t]
        TR, k = self.TR, t[0]
        # the constructors take Iterable[Tensor]: about half of the atoms get one-shot iterators (generators) instead of lists
        gen = (lambda xs: (x for x in xs)) if (sum(v for v in t[1:] if isinstance(v, int)) % 2 == 1) else (lambda xs: xs)
        if k == "I":
            r = TR.Init(gen(self.keys(t[1])))
        elif k == "D":
            r = TR.Diagonalize(gen(self.keys(t[1])))
        elif k == "A":
            r = TR.Accumulate(gen(self.keys(t[1])))
        elif k == "S":
            r = TR.Select(gen(self.keys(t[1])), gen(self.keys(t[2])))
        elif k == "Co":
            a, b = self.construct(t[1]), self.construct(t[2])
            r = a << b
        else:
            ms = [self.construct(x) for x in t[1]]
            r = TR.Stack(ms) if k == "St" else TR.Conjunction(ms)
        if size(t) <= 4:
            self.built[t] = r
        return r

    def reset_grads(self):
        for k in self.K:
            k.grad = None

    def grad_mask(self):
        return sum(1 << i for i, k in enumerate(self.K) if k.grad is not None)


_WORLD = {}


def world(seed):
    if seed not in _WORLD:
        _WORLD.clear()
        _WORLD[seed] = World(seed)
    return _WORLD[seed]


class Acc:
    """Per-case accumulator of violations, outcome digests and counters."""

    def __init__(self):
        self.viol, self.outcomes, self.execs, self.nontrivial, self.dropped = [], set(), 0, 0, 0
        self.c = dict(constructed=0, rejected=0, applied_ok=0, applied_ve_keys=0, applied_ve_model=0, ill_typed_skipped=0, laws_compared=0,
                      law_one_side_fails=0)

    def v(self, sig_, msg, cls=None):
        if len(self.viol) < 40:
            self.viol.append(dict(sig=sig_, cls=cls or sig_, msg=msg[:700]))

    def result(self):
        return dict(viol=self.viol, execs=self.execs, outcomes=sorted(self.outcomes), nontrivial=self.nontrivial, dropped=self.dropped,
                    counters=self.c)


# ----------------------------------------------------------------------------- oracles
def check_construct(w, acc, t):
    """Constructs ``t`` on the real classes and compares acceptance and declared key sets with the model.
    Returns the transform or None."""
    s = sig(t)
    if t not in w.built:
        acc.execs += 1
    try:
        tr = w.construct(t)
    except ValueError as e:
        acc.c["rejected"] += 1
        if s is not None:
            acc.v("construction-rejected-wellformed:" + t[0], f"{tstr(t)}: model says required/output = {s}, constructor raised {e!r}")
        return None
    except Exception as e:
        acc.v(f"exception:construct:{type(e).__name__}", f"{tstr(t)}: {e!r}")
        return None
    acc.c["constructed"] += 1
    if s is None:
        acc.v("construction-accepted-illformed:" + t[0], f"{tstr(t)} was built although the model says it is ill-formed")
        return None
    try:
        got = (w.mask(tr.required_keys), w.mask(tr.output_keys))
        n = (len(tr.required_keys), len(tr.output_keys))
    except Exception as e:
        acc.v(f"exception:keys:{type(e).__name__}", f"{tstr(t)}: {e!r}")
        return None
    if got != s or n != (bin(s[0]).count("1"), bin(s[1]).count("1")):
        acc.v("declared-keys-differ:" + t[0], f"{tstr(t)}: declared (required, output) = {got}, model {s}")
        return None
    return tr


def apply_once(w, tr, T, ks):
    """Applies the real transform; returns ('ok', type name, key mask, rows, grad mask, result) or ('exc', class name, text)."""
    w.reset_grads()
    try:
        r = tr(w.inputs[(T, ks)])
    except Exception as e:
        return ("exc", type(e).__name__, repr(e)[:160])
    ty = w.name.get(type(r), type(r).__name__)
    try:
        km = w.mask(r.keys())
    except KeyError:
        return ("exc", "ForeignKey", "result contains a key that is not a key tensor")
    rows = None
    if ty in ("J", "M") and len(r):
        fd = {int(v.shape[0]) for v in r.values()}
        rows = fd.pop() if len(fd) == 1 else tuple(sorted(fd))
    return ("ok", ty, km, rows, w.grad_mask(), r)


def check_apply(w, acc, t, tr, full):
    """Application oracle. ``full``: every key set x every dict type; otherwise every key set with one dict type
    for the wrong key sets (rotating) and every dict type for the required key set."""
    req, out = sig(t)
    obs = []
    ok_nonempty = False
    for ks in range(8):
        types = in_types(ks)
        if ks != req and not full:
            types = (types[(ks + req) % len(types)],)
        for T in types:
            pred = app(t, T, ks, (M_ROWS if T in "JM" and ks else None))
            if pred == "ILL":
                acc.dropped += 1
                acc.c["ill_typed_skipped"] += 1
                continue
            acc.execs += 1
            o = apply_once(w, tr, T, ks)
            where = f"{tstr(t)} applied to {T} with keys {ks:03b} (required {req:03b})"
            if pred == "VE":
                if o[0] == "ok":
                    if ks != req:
                        acc.v("wrong-keys-accepted:" + t[0], f"{where}: returned {o[1]} keys {o[2]:03b} instead of raising ValueError")
                    else:
                        acc.v("model-predicted-valueerror:" + t[0], f"{where}: returned {o[1]} keys {o[2]:03b}")
                elif o[1] != "ValueError":
                    acc.v(f"exception:apply:{o[1]}", f"{where}: expected ValueError, got {o[2]}")
                else:
                    acc.c["applied_ve_keys" if ks != req else "applied_ve_model"] += 1
                    if ks == req:
                        obs.append((T, "VE"))
                continue
            if o[0] != "ok":
                acc.v(f"exception:apply:{o[1]}", f"{where}: model expects {pred[1:]}, got {o[2]}", cls=f"exception:apply:{o[1]}:{t[0]}")
                continue
            acc.c["applied_ok"] += 1
            _, ty, km, rows, gm, r = o
            if km != pred[2] or km != out or len(r) != bin(out).count("1"):
                acc.v("result-keys-differ:" + t[0], f"{where}: result keys {km:03b}, declared output {out:03b}")
            elif ty != pred[1]:
                acc.v("result-type-differs:" + t[0], f"{where}: result type {ty}, model (least common ancestor of the parts) {pred[1]}",
                      cls=f"result-type:{t[0]}:{pred[1]}->{ty}")
            elif rows != pred[3]:
                acc.v("result-rows-differ:" + t[0], f"{where}: first dimension {rows}, model {pred[3]}")
            elif gm != accs(t):
                acc.v("accumulate-side-effect-differs:" + t[0], f"{where}: .grad written for {gm:03b}, model {accs(t):03b}")
            if km or gm:
                ok_nonempty = True
            obs.append((T, ty, km, rows, gm))
    acc.outcomes.add(digest([t[0], req, out, obs]))
    return ok_nonempty


def check_term(w, acc, t, full=False):
    tr = check_construct(w, acc, t)
    if tr is None:
        if sig(t) is None and size(t) > 1:
            acc.nontrivial += 1
        return None
    if check_apply(w, acc, t, tr, full) and size(t) > 1:
        acc.nontrivial += 1
    return tr


def same_result(w, a, b):
    """Equality of two application observations on keys, type and values (and .grad side effects)."""
    if a[0] != b[0]:
        return False
    if a[0] == "exc":
        return a[1] == b[1]
    if a[1:5] != b[1:5]:
        return False
    ra, rb = a[5], b[5]
    return all(w.torch.equal(ra[k], rb[k]) for k in ra)


def compare_law(w, acc, law, terms):
    """All ``terms`` are bracketings/orderings that the law declares equivalent."""
    sigs = [sig(t) for t in terms]
    if len({s is None for s in sigs}) > 1:
        raise RuntimeError(f"harness: the model itself violates {law} on constructibility: {[tstr(t) for t in terms]}")
    trs = [check_construct(w, acc, t) for t in terms]
    if sigs[0] is None or any(tr is None for tr in trs):
        if sigs[0] is None:
            acc.nontrivial += 1
        return
    if len(set(sigs)) > 1:
        raise RuntimeError(f"harness: model signatures differ under {law}: {[tstr(t) for t in terms]}")
    req = sigs[0][0]
    any_ok = False
    for T in in_types(req):
        rows = M_ROWS if T in "JM" and req else None
        preds = [app(t, T, req, rows) for t in terms]
        if "ILL" in preds:
            acc.dropped += 1
            acc.c["ill_typed_skipped"] += 1
            continue
        obs = []
        for t, tr, p in zip(terms, trs, preds):
            acc.execs += 1
            o = apply_once(w, tr, T, req)
            # keep the .grad values as part of the observation
            o = o + (tuple(None if k.grad is None else k.grad.clone() for k in w.K),)
            obs.append(o)
            exp = ("exc", "ValueError") if p == "VE" else ("ok",) + p[1:] + (accs(t),)
            got = o[:2] if o[0] == "exc" else o[:5]
            if exp != got:
                acc.v(f"law-side-differs-from-model:{law}", f"{tstr(t)} on {T}: model {exp}, observed {got}")
        if len({o[0] for o in obs}) > 1:
            # the property states the laws for successful applications only; one-sided failures are model-predicted (see notes)
            acc.dropped += 1
            acc.c["law_one_side_fails"] += 1
            continue
        acc.c["laws_compared"] += 1
        for o in obs[1:]:
            same = same_result(w, obs[0], o)
            if same and o[0] == "ok":
                ga, gb = obs[0][-1], o[-1]
                same = all((x is None) == (y is None) and (x is None or w.torch.equal(x, y)) for x, y in zip(ga, gb))
            if not same:
                acc.v(f"law-violated:{law}", f"{tstr(terms[0])} vs {tstr(terms[obs.index(o)])} on {T}: {obs[0][:5]} vs {o[:5]}")
        if obs[0][0] == "ok" and (obs[0][2] or obs[0][4]):
            any_ok = True
        acc.outcomes.add(digest([law, T, obs[0][:5] if obs[0][0] == "ok" else obs[0][:2]]))
    if any_ok:
        acc.nontrivial += 1


# ----------------------------------------------------------------------------- dictionary types
SHAPES7 = ((), (1,), (2,), (1, 2), (2, 1), (2, 2), (2, 1, 2))


def _prod(s):
    n = 1
    for x in s:
        n *= x
    return n


def dict_accepts(T, pairs):
    """Shape model of the dictionary types. pairs = [(key shape, value shape)]."""
    if T == "E":
        return len(pairs) == 0
    if T == "T":
        return True
    for k, v in pairs:
        if T == "G" and v != k:
            return False
        if T == "J" and (len(v) < 1 or v[1:] != k):
            return False
        if T == "V" and (len(v) != 1 or v[0] != _prod(k)):
            return False
        if T == "M" and (len(v) != 2 or v[1] != _prod(k)):
            return False
    if T in "JM" and len({v[0] for _, v in pairs}) > 1:
        return False
    return True


def run_dicts(w, acc, part):
    torch = w.torch
    keys = {s: torch.zeros(s, dtype=torch.float64) for s in SHAPES7}
    keys2 = {s: torch.zeros(s, dtype=torch.float64) for s in SHAPES7}
    vals = {s: torch.ones(s, dtype=torch.float64) for s in SHAPES7}
    T6 = ("T", "G", "J", "V", "M", "E")

    def build(T, pairs, kobjs):
        acc.execs += 1
        exp = dict_accepts(T, pairs)
        d = {ko: vals[v] for ko, (_, v) in zip(kobjs, pairs)}
        try:
            r = w.cls[T](d)
            got = True
        except ValueError:
            got = False
        except IndexError:
            got = False  # 0-d value in Jacobians / JacobianMatrices: value.shape[0] -> IndexError (rejected all the same)
            acc.c["rejected_with_IndexError"] = acc.c.get("rejected_with_IndexError", 0) + 1
        except Exception as e:
            acc.v(f"exception:dict:{type(e).__name__}", f"{T}({pairs}): {e!r}")
            return
        if got != exp:
            acc.v(f"dict-shape-rule:{T}:{'accepted' if got else 'rejected'}", f"{T} with (key shape, value shape) pairs {pairs}: "
                  f"{'accepted' if got else 'rejected'}, model says {'accept' if exp else 'reject'}", cls=f"dict-shape:{T}:{got}")
        elif got and (type(r) is not w.cls[T] or len(r) != len(pairs)):
            acc.v("dict-content", f"{T}({pairs}) -> {type(r).__name__} of length {len(r)}")
        acc.nontrivial += 1
        acc.outcomes.add(digest(["dict", T, got, len(pairs), [len(v) for _, v in pairs] if not got else None]))

    if part == 0:  # single pairs and empty dictionaries
        for T in T6:
            build(T, [], [])
            for k in SHAPES7:
                for v in SHAPES7:
                    build(T, [(k, v)], [keys[k]])
        # EmptyTensorDict() with no argument / None
        for arg in ((), (None,), ({},)):
            acc.execs += 1
            try:
                r = w.cls["E"](*arg)
                if len(r) != 0 or type(r) is not w.cls["E"]:
                    acc.v("dict-content", f"EmptyTensorDict{arg} -> {r!r}")
            except Exception as e:
                acc.v(f"exception:dict:{type(e).__name__}", f"EmptyTensorDict{arg}: {e!r}")
    elif part in (1, 2, 3, 4):  # all two-entry dictionaries
        T = ("G", "J", "V", "M")[part - 1]
        for k1, v1, k2, v2 in itertools.product(SHAPES7, repeat=4):
            build(T, [(k1, v1), (k2, v2)], [keys[k1], keys2[k2]])
        if part == 1:
            for Tx in ("T", "E"):
                for k1, v1, k2, v2 in itertools.product(SHAPES7[:3], repeat=4):
                    build(Tx, [(k1, v1), (k2, v2)], [keys[k1], keys2[k2]])
    else:  # mutators
        k0, k1, kn = keys[()], keys[(2,)], keys2[(2,)]
        content = dict(T={k0: vals[()], k1: vals[(2,)]}, G={k0: vals[()], k1: vals[(2,)]}, J={k0: vals[(2,)], k1: vals[(2, 2)]},
                       V={k0: vals[(1,)], k1: vals[(2,)]}, M={k0: vals[(2, 1)], k1: vals[(2, 2)]}, E={})
        newval = dict(T=vals[(2,)], G=vals[(2,)], J=vals[(2, 2)], V=vals[(2,)], M=vals[(2, 2)], E=vals[(2,)])
        for T in T6:
            for filled in ((True, False) if T != "E" else (False,)):
                src = content[T] if filled else {}
                nv = newval[T]
                muts = [
                    ("setitem-new", lambda d: d.__setitem__(kn, nv)),
                    ("setitem-existing", lambda d: d.__setitem__(k1, nv)),
                    ("delitem-existing", lambda d: d.__delitem__(k1)),
                    ("delitem-missing", lambda d: d.__delitem__(kn)),
                    ("update-dict", lambda d: d.update({kn: nv})),
                    ("update-pairs", lambda d: d.update([(kn, nv)])),
                    ("update-empty", lambda d: d.update()),
                    ("pop-existing", lambda d: d.pop(k1)),
                    ("pop-missing-default", lambda d: d.pop(kn, None)),
                    ("pop-missing", lambda d: d.pop(kn)),
                    ("popitem", lambda d: d.popitem()),
                    ("clear", lambda d: d.clear()),
                    ("setdefault-new", lambda d: d.setdefault(kn, nv)),
                    ("setdefault-existing", lambda d: d.setdefault(k1, nv)),
                    ("setdefault-nodefault", lambda d: d.setdefault(kn)),
                ]
                for name, fn in muts:
                    d = w.cls[T](src)
                    before = [(id(k), id(v)) for k, v in d.items()]
                    acc.execs += 1
                    try:
                        fn(d)
                        raised = None
                    except Exception as e:
                        raised = type(e).__name__
                    after = [(id(k), id(v)) for k, v in d.items()]
                    if raised != "TypeError":
                        acc.v(f"mutator-not-rejected:{name.split('-')[0]}", f"{T}({'filled' if filled else 'empty'}).{name}: "
                              f"{'no exception' if raised is None else raised} instead of TypeError", cls=f"mutator:{T}:{name}")
                    if after != before:
                        acc.v(f"mutator-changed-content:{name.split('-')[0]}", f"{T}.{name} changed the dictionary", cls=f"mutated:{T}:{name}")
                    acc.nontrivial += 1
                    acc.outcomes.add(digest(["mut", T, filled, name, raised]))
                # not in the property's list (observation only): in-place union is inherited from dict and does mutate
                d = w.cls[T](src)
                try:
                    d |= {kn: nv}
                    acc.c["ior_mutates_(not_asserted)"] = acc.c.get("ior_mutates_(not_asserted)", 0) + (1 if kn in d else 0)
                except TypeError:
                    pass


# ----------------------------------------------------------------------------- cases
def run_case(case):
    import torch

    # The library formats the offending key sets (sets of tensors) into every ValueError message; printing tensors costs
    # ~0.4 ms per rejected application. A cheap Tensor.__repr__ (torch side, not library side) is installed while the case runs.
    saved = torch.Tensor.__repr__
    torch.Tensor.__repr__ = lambda self, *a, **k: f"<tensor {tuple(self.shape)}>"
    try:
        return _run_case(case)
    finally:
        torch.Tensor.__repr__ = saved


def _run_case(case):
    w = world(case["seed"])
    w.built.clear()  # construction cache is per case, so that the execution counters do not depend on the worker's history
    u = universe()
    acc = Acc()
    kind = case["kind"]
    if kind == "dicts":
        run_dicts(w, acc, case["part"])
    elif kind == "atoms":
        for a in ATOMS:
            tr = check_construct(w, acc, a)
            if tr is not None:
                check_apply(w, acc, a, tr, True)
            acc.nontrivial += 1
    elif kind == "d2empty":
        for k in ("St", "Cj"):
            check_term(w, acc, (k, ()), True)
        acc.nontrivial += 2
    elif kind == "d2co":
        a = WF_ATOMS[case["first"]]
        for b in WF_ATOMS:
            check_term(w, acc, ("Co", a, b), True)
    elif kind == "d2n":
        a = WF_ATOMS[case["first"]]
        for n in (0, 1, 2):
            for rest in itertools.product(WF_ATOMS, repeat=n):
                check_term(w, acc, (case["ctor"], (a,) + rest), True)
    elif kind == "d3co":
        R = u["rich"]
        for a in R[case["lo"]:case["hi"]]:
            for b in R:
                check_term(w, acc, ("Co", a, b))
    elif kind == "d3pair":
        R = u["rich"]
        for i in range(case["lo"], case["hi"]):
            for j, b in enumerate(R):
                check_term(w, acc, (case["ctor"], (R[i], b)))
                if case["ctor"] == "Cj" and j > i:
                    compare_law(w, acc, "conj-commutative", [("Cj", (R[i], b)), ("Cj", (b, R[i]))])
    elif kind == "d3tri":
        C = u["coarse"]
        a = C[case["first"]]
        for b in C:
            for c in C:
                check_term(w, acc, (case["ctor"], (a, b, c)))
    elif kind == "d3tri_rich":
        R = u["rich"]
        a = R[case["first"]]
        same = [t for t in R if sig(t)[0] == sig(a)[0]]
        cj = case["ctor"] == "Cj"
        for b in same:
            if cj and sig(a)[1] & sig(b)[1]:
                continue  # ill-formed whatever c is (construction of ill-formed triples is covered by d3tri)
            for c in same:
                if cj and (sig(a)[1] | sig(b)[1]) & sig(c)[1]:
                    continue
                t = (case["ctor"], (a, b, c))
                if sig(t) is None:
                    raise RuntimeError("harness: pre-filter and model disagree")
                check_term(w, acc, t)
    elif kind == "law_co_atoms":  # constructibility of both bracketings over ALL atom triples; results where well-formed
        a = WF_ATOMS[case["first"]]
        for b in WF_ATOMS:
            ab = sig(("Co", a, b)) is not None
            for c in WF_ATOMS:
                bc = sig(("Co", b, c)) is not None
                if ab and bc:
                    compare_law(w, acc, "composition-associative", [("Co", ("Co", a, b), c), ("Co", a, ("Co", b, c))])
                elif ab or bc:
                    # exactly one inner composition exists: the outer one must be rejected (the other bracketing has no inner part)
                    t = ("Co", ("Co", a, b), c) if ab else ("Co", a, ("Co", b, c))
                    if sig(t) is not None:
                        raise RuntimeError("harness: model not associative on constructibility")
                    check_construct(w, acc, t)
                    acc.nontrivial += 1
    elif kind == "law_co":
        P = u["pool"]
        a = P[case["first"]]
        for b in P:
            if sig(("Co", a, b)) is None:
                continue
            for c in P:
                if sig(("Co", b, c)) is None or (a in WF_ATOMS and b in WF_ATOMS and c in WF_ATOMS):
                    continue
                compare_law(w, acc, "composition-associative", [("Co", ("Co", a, b), c), ("Co", a, ("Co", b, c))])
    elif kind == "law_cj" and case["pool"] == "rich":  # well-formed triples of behaviour representatives only
        R = u["rich"]
        a = R[case["first"]]
        same = [t for t in R if sig(t)[0] == sig(a)[0] and not sig(t)[1] & sig(a)[1]]
        for b in same:
            for c in same:
                if sig(b)[1] & sig(c)[1]:
                    continue
                compare_law(w, acc, "conj-associative", [("Cj", (("Cj", (a, b)), c)), ("Cj", (a, ("Cj", (b, c)))), ("Cj", (a, b, c))])
    elif kind == "law_cj":
        P = WF_ATOMS if case["pool"] == "atoms" else u["coarse"]
        a = P[case["first"]]
        for b in P:
            for c in P:
                ab, bc = sig(("Cj", (a, b))) is not None, sig(("Cj", (b, c))) is not None
                flat = ("Cj", (a, b, c))
                if sig(flat) is not None:
                    compare_law(w, acc, "conj-associative", [("Cj", (("Cj", (a, b)), c)), ("Cj", (a, ("Cj", (b, c)))), flat])
                else:
                    for t in (("Cj", (("Cj", (a, b)), c)) if ab else ("Cj", (a, b)), ("Cj", (a, ("Cj", (b, c)))) if bc else ("Cj", (b, c)), flat):
                        if sig(t) is not None:
                            raise RuntimeError("harness: model not associative on constructibility")
                        check_construct(w, acc, t)
                    acc.nontrivial += 1
    else:
        raise RuntimeError(f"unknown case kind {kind}")
    return acc.result()


def finalize(tier, seed, agg, cases, results):
    u = universe()
    c = agg["counters"]
    notes = dict(
        wellformed_depth2_terms=u["n_wf_d2"], behaviour_classes=u["n_rich"], behaviour_representatives=len(u["rich"]),
        key_classes=u["n_coarse"], key_representatives=len(u["coarse"]),
        deviations_predicted_by_model=dict(
            valueerror_with_required_keys=c.get("applied_ve_model", 0),
            law_one_side_fails=c.get("law_one_side_fails", 0),
            dict_rejected_with_IndexError=c.get("rejected_with_IndexError", 0),
            inplace_union_mutates=c.get("ior_mutates_(not_asserted)", 0),
        ),
    )
    return dict(notes=notes)
