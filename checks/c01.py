"""C01 — backward() deposits slices of aggregator(true Jacobian) into .grad (DESIGN §3 C01).

Bounded-exhaustive: every program of the universe up to depth D x every ordered output list (<= 2
tensors) x every subset of leaves as inputs x every set-iteration order (seam) x listing orders x
aggregators x chunk sizes x dtypes; oracle = NumPy forward-mode reference Jacobian.
"""
from __future__ import annotations

import itertools

import numpy as np

from mc import programs as P
from mc.runner import digest

SPEC = dict(
    property_id="C01",
    level="model_checking",
    rule=(
        "case = (program, ordered output list); executions = every (inputs subset, set-iteration order, listing "
        "order, aggregator, chunk size, dtype, pre-existing .grad) configuration of that case on the real backward(); "
        "non-trivial = distinct (program, outputs, inputs) with >= 2 Jacobian rows and >= 2 input tensors, so that "
        "row order and slice order are both observable"
    ),
    bound=dict(
        quick="programs with <= 2 ops over 3 leaves, shape scenarios S1,S2 (all grad) and S1 (L1 without grad), S3 depth<=1; "
              "plus all 2-op programs with three outputs of mixed rank (>= two 0-d, one >= 1-d) in all six orders; leaf outputs; container kinds; column-major leaves",
        thorough="all scenarios with <= 2 ops (full configuration product, both output orders) plus all programs with 3 ops on scenario S1 (all leaves requiring grad; light product, ascending output order)",
    ),
    assumptions=[
        "ops limited to the grammar of mc/programs.py; <= 3 leaves; <= 2 output tensors (3 in the mixed-rank family); tensors <= 2-d",
        "non-linear aggregators are checked through the recorded matrix/vector (column equivariance is C08)",
        "torch.autograd itself is trusted only through agreement with the independent NumPy forward-mode interpreter",
    ],
)

WEIGHTS = [3.0, -2.0, 1.0, 5.0, -7.0, 11.0, 13.0, -17.0, 19.0, 23.0, -29.0, 31.0, 37.0, -41.0, 43.0, 47.0]


def gen_cases(tier, seed):
    """plan entries: (shape scenario, flag scenario, depth, mode) with mode in
    full  : every output order, full configuration product
    mixed : ascending output order full, permuted output order light
    light : ascending output order only, light configuration product"""
    cases = []
    if tier == "quick":
        plan = [("S1", "all", 1, "full"), ("S1", "all", 2, "mixed"), ("S2", "all", 1, "full"), ("S2", "all", 2, "light"),
                ("S1", "L1off", 1, "full"), ("S1", "L1off", 2, "light"), ("S3", "all", 1, "full"), ("S3", "L1off", 1, "full")]
    else:
        plan = [(s, f, d, "full") for s in P.SHAPE_SCENARIOS for f in P.FLAG_SCENARIOS for d in (1, 2)]
        plan += [("S1", "all", 3, "light")]
    for scen, flags, depth, mode in plan:
        shapes, req = P.SHAPE_SCENARIOS[scen], P.FLAG_SCENARIOS[flags]
        for prog, outs in P.enum_program_outputs(shapes, req, depth, both_orders=(mode != "light")):
            light = mode == "light" or (mode == "mixed" and outs != sorted(outs))
            cases.append(dict(prog=prog, outs=outs, seed=seed, light=light))
    # three output tensors of mixed rank (at least two 0-d ones and one of dimension >= 1) in every order: the rows follow the listing
    # whatever the ranks are (added after a seeded change that stacked the 0-d tensors in front of the others)
    for scen in ("S1", "S2"):
        shapes, req = P.SHAPE_SCENARIOS[scen], P.FLAG_SCENARIOS["all"]
        for prog, outs in P.enum_program_outputs(shapes, req, 2, max_outputs=3, both_orders=False):
            if len(outs) != 3:
                continue
            tt = P.Typed(prog)
            nd = [len(tt.shapes[o]) for o in outs]
            if sum(1 for d in nd if d == 0) >= 2 and any(d > 0 for d in nd):
                for perm in itertools.permutations(outs):
                    cases.append(dict(prog=prog, outs=list(perm), seed=seed, light=True))
    # more than 2**20 input scalars (added after a seeded change that aggregated very wide Jacobians block by block): one hand-built case
    cases.append(dict(special="million-columns", prog=None, outs=None, seed=seed, light=True))
    # outputs that are themselves leaves (identity rows); only with explicit inputs (a leaf has no grad_fn to start discovery from)
    for scen, flags in (("S1", "all"), ("S2", "all"), ("S1", "L1off")):
        for depth in ((0, 1) if tier == "quick" else (0, 1, 2)):
            for prog, outs in P.enum_program_outputs(P.SHAPE_SCENARIOS[scen], P.FLAG_SCENARIOS[flags], depth, both_orders=True, leaf_outputs=True):
                cases.append(dict(prog=prog, outs=outs, seed=seed, light=depth >= 1, leafout=True))
    return cases


def _configs(t, outs, leaves, m, light, leafout=False):
    """(inputs listing | None, set order (ranks over the listing), aggregator name, chunk, dtype)"""
    cfgs = []
    full = list(leaves)
    nat = list(range(len(full)))
    eff = sorted(set().union(*[t.deps[o] for o in outs]))
    # (a) every subset (incl. empty) x every set-iteration order, Constant, chunk None
    for r in range(0, len(full) + 1):
        if light and r == 2:
            continue
        for sub in itertools.combinations(full, r):
            for o in itertools.permutations(range(r)):
                cfgs.append((list(sub), list(o), "const", None, "float64"))
    # (b) listing orders of all leaves (set order follows the listing)
    perms = [p for p in itertools.permutations(full) if list(p) != full]
    for perm in (perms[-1:] if light else perms):
        cfgs.append((list(perm), nat, "const", None, "float64"))
    # (c) defaulted inputs, iteration orders of the discovered set
    orders = list(itertools.permutations(range(len(eff))))
    for o in (orders[:1] + orders[-1:] if light else orders):
        cfgs.append((None, list(o), "const", None, "float64"))
    # (d) chunk sizes x Constant; aggregators; float32
    for k in (sorted({1, 2, max(1, m - 1)}) if light else sorted({1, 2, max(1, m - 1), m, m + 2})):
        cfgs.append((full, nat, "const", k, "float64"))
        if not light:
            cfgs.append((full[::-1], nat[::-1], "const", k, "float64"))
    aggs = (["upgrad"] + (["tm1"] if m >= 3 else [])) if light else (["upgrad", "mgda", "mean"] + (["tm1", "krum"] if m >= 3 else []))
    for a in aggs:
        cfgs.append((full, nat[::-1], a, None, "float64"))
        if not light:
            cfgs.append((None, list(range(len(eff))), a, 2, "float64"))
    cfgs.append((full, nat, "const", None, "float32"))
    # argument containers: inputs as generator / tuple, a single output given as a bare tensor, outputs as a tuple
    cfgs.append((full, nat[::-1], "const", None, "float64", "gen"))
    cfgs.append((full[:2], nat[:2], "const", 1, "float64", "tuple"))
    if not light:
        cfgs.append((full, nat[::-1], "const", 1, "float32"))
        cfgs.append((None, list(range(len(eff)))[::-1], "upgrad", 2, "float32"))
    if leafout:
        cfgs = [c for c in cfgs if c[0] is not None]
    return cfgs


def _make_agg(name, m, dtype):
    import torch
    from torchjd import aggregation as A

    if name == "const":
        return A.Constant(torch.tensor(WEIGHTS[:m], dtype=getattr(torch, dtype)))
    return {"upgrad": A.UPGrad, "mgda": A.MGDA, "mean": A.Mean, "tm1": lambda: A.TrimmedMean(1),
            "krum": lambda: A.Krum(0, 1)}[name]()


def _run_million(case):
    """W (1024 x 1025) and b (8,): 1 049 608 Jacobian columns, two objectives that conflict on W and agree on b. The deposited
    gradients must be the slices of UPGrad / Constant applied to the WHOLE Jacobian (rows obtained from torch.autograd.grad)."""
    import torch
    from torchjd import backward
    from torchjd.aggregation import Constant, UPGrad

    viol, execs, outcomes = [], 0, set()
    for aggname in ("upgrad", "const"):
        for dtype in (torch.float64, torch.float32):
            g = torch.Generator().manual_seed(5 + case["seed"] % 4)
            W = torch.randn(1024, 1025, generator=g, dtype=dtype).mul_(0.05).requires_grad_()
            b = torch.linspace(-1.0, 2.0, 8, dtype=dtype).requires_grad_()
            x = torch.linspace(-1.0, 1.0, 1025, dtype=dtype)
            h = torch.tanh(W @ x)
            y1 = (h * h).sum() + 3.0 * (b * b).sum()
            y2 = -(h.sum() ** 2) * 0.01 + (b * b).sum() + b.sum()
            rows = [torch.cat([gr.reshape(-1) for gr in torch.autograd.grad(y, [W, b], retain_graph=True)]) for y in (y1, y2)]
            J = torch.stack(rows)
            agg = UPGrad() if aggname == "upgrad" else Constant(torch.tensor([3.0, -2.0], dtype=dtype))
            exp = agg(J)
            execs += 1
            try:
                backward([y1, y2], agg, inputs=[W, b])
            except Exception as e:
                viol.append(dict(sig=f"exception:{type(e).__name__}", msg=f"million-columns {aggname} {dtype}: {e!r}"[:400]))
                continue
            got = torch.cat([W.grad.reshape(-1), b.grad.reshape(-1)])
            sc = float(exp.abs().max())
            err = float((got - exp).abs().max()) / sc
            tol = 1e-9 if dtype == torch.float64 else 1e-4
            outcomes.add(f"million:{aggname}:{dtype}:{bool(float(J[0] @ J[1]) < 0)}")
            if not (err <= tol):
                viol.append(dict(sig="jacobian-or-slices-mismatch:million-columns", cls=f"million:{aggname}",
                                 msg=f"backward over 1 049 608 input scalars, {aggname} {dtype}: deposited gradients differ from the slices of aggregator(J) "
                                     f"by {err:.3g} (relative; b.grad={b.grad.tolist()[:3]}..., expected {exp[-8:].tolist()[:3]}...)"))
    return dict(viol=viol, execs=execs, outcomes=sorted(outcomes), nontrivial=len(outcomes), margin=0.0, maxima={}, counters=dict(seam_hits=1, col_orders=1, configs=1))


def run_case(case):
    import torch
    from torchjd import backward
    from mc.seams import RecordingAggregator, SetOrderSeam

    if case.get("special") == "million-columns":
        return _run_million(case)
    prog, outs, seed = case["prog"], case["outs"], case["seed"]
    t = P.Typed(prog)
    lv = P.leaf_values(t.shapes[: t.nleaves], seed)
    ref = P.RefRun(prog, lv)
    leaves = [i for i in range(t.nleaves) if t.req[i]]
    m = sum(t.numel(o) for o in outs)
    viol, outcomes, execs, nontrivial, margin = [], set(), 0, set(), 0.0
    counters = dict(seam_hits=0, col_orders=0, configs=0)
    maxima = {}
    col_orders_seen = set()
    fwd_checked = False
    for ci, cfg_ in enumerate(_configs(t, outs, leaves, m, case["light"], case.get("leafout", False))):
        listing, order, aggname, chunk, dtype = cfg_[:5]
        cont = cfg_[5] if len(cfg_) > 5 else "list"
        vals = P.build_torch(prog, lv, dtype, layout="f" if ci % 3 == 1 else "c")  # every third configuration: column-major leaves
        if not fwd_checked:
            if not P.forward_agrees(vals, ref, dtype):
                raise RuntimeError("harness: reference forward values disagree with torch: " + P.prog_str(prog, outs))
            fwd_checked = True
        eff = sorted(set().union(*[t.deps[o] for o in outs])) if listing is None else sorted(listing)
        members = eff if listing is None else listing
        # pre-existing .grad: alternate None / non-zero content
        pre = {}
        for i in range(t.nleaves):
            if t.req[i] and (i + ci) % 2 == 0:
                g = torch.full_like(vals[i], 0.5 + i)
                vals[i].grad = g
                pre[i] = g.detach().clone()
        rank = {id(vals[l]): order[j] for j, l in enumerate(members)} if len(order) == len(members) else {}
        # sets of OUTPUT tensors (e.g. Init's values) iterate in listing order for even configurations, reversed for odd ones
        for j, o in enumerate(outs):
            rank[id(vals[o])] = 200 + (j if ci % 2 == 0 else len(outs) - 1 - j)
        agg = RecordingAggregator(_make_agg(aggname, m, dtype))
        sig_cfg = f"inputs={listing} order={order} agg={aggname} chunk={chunk} {dtype} containers={cont}"
        tensors_arg = [vals[o] for o in outs]
        inputs_arg = None if listing is None else [vals[l] for l in listing]
        if cont == "gen":
            inputs_arg = (x for x in inputs_arg)
            tensors_arg = tuple(tensors_arg)
        elif cont == "tuple":
            inputs_arg = tuple(inputs_arg)
            tensors_arg = tensors_arg[0] if len(tensors_arg) == 1 else tuple(tensors_arg)
        try:
            with SetOrderSeam(lambda x: rank.get(id(x), 99)) as seam:
                backward(tensors_arg, agg, inputs=inputs_arg, parallel_chunk_size=chunk)
            counters["seam_hits"] += seam.hits
        except Exception as e:  # the call is valid: any exception violates C01
            viol.append(dict(sig=f"exception:{type(e).__name__}", cls=f"exception:{type(e).__name__}:{aggname}",
                             msg=f"{P.prog_str(prog, outs)} | {sig_cfg} | {e!r}"[:500], cfg=sig_cfg))
            execs += 1
            continue
        execs += 1
        counters["configs"] += 1
        tol = (1e-12 if dtype == "float64" else 2e-4)
        J = ref.jacobian(outs, eff)  # canonical column order (ascending leaf index)
        scale = max(1.0, float(np.abs(J).max()) if J.size else 1.0)
        # observed deltas
        delta, ok_unreq = {}, True
        for i in range(t.nleaves):
            g = vals[i].grad
            if i in eff:
                if g is None:
                    delta[i] = None
                else:
                    d = g.detach().double().numpy() - (pre[i].double().numpy() if i in pre else 0.0)
                    delta[i] = d
            else:
                if i in pre:
                    if g is None or not torch.equal(g, pre[i]):
                        ok_unreq = False
                elif g is not None:
                    ok_unreq = False
        if not ok_unreq:
            viol.append(dict(sig="unrequested-leaf-touched", msg=f"{P.prog_str(prog, outs)} | {sig_cfg}", cfg=sig_cfg))
        if len(eff) == 0:
            if agg.calls and agg.calls[0][0].shape[1] != 0:
                viol.append(dict(sig="aggregator-called-with-columns-for-no-input", msg=sig_cfg, cfg=sig_cfg))
            outcomes.add(digest(["empty"]))
            continue
        if any(delta[i] is None for i in eff):
            viol.append(dict(sig="grad-not-created", msg=f"{P.prog_str(prog, outs)} | {sig_cfg}", cfg=sig_cfg))
            continue
        if any(delta[i].shape != tuple(t.shapes[i]) for i in eff):
            viol.append(dict(sig="grad-wrong-shape", msg=f"{P.prog_str(prog, outs)} | {sig_cfg}", cfg=sig_cfg))
            continue
        if len(agg.calls) != 1:
            viol.append(dict(sig="aggregator-call-count", msg=f"{len(agg.calls)} calls | {sig_cfg}", cfg=sig_cfg))
            continue
        M, x = agg.calls[0]
        M = M.double().numpy()
        x = x.detach().double().numpy()
        # (1)+(2): exists a block order of eff such that M == J[:, blocks] and deltas == slices of x
        found = None
        err_best = np.inf
        for perm in itertools.permutations(eff):
            Jp = ref.jacobian(outs, list(perm))
            if Jp.shape != M.shape:
                continue
            e1 = float(np.abs(M - Jp).max()) if M.size else 0.0
            off, e2 = 0, 0.0
            for l in perm:
                n = t.numel(l)
                sl = x[off:off + n].reshape(t.shapes[l])
                e2 = max(e2, float(np.abs(sl - delta[l]).max()))
                off += n
            xs = max(1.0, float(np.abs(x).max()))
            err = max(e1 / (tol * scale), e2 / (tol * xs * 8))
            if err < err_best:
                err_best, found = err, perm
        margin = max(margin, min(err_best, 1e9))
        maxima[f"jacobian+slices:{dtype}"] = max(maxima.get(f"jacobian+slices:{dtype}", 0.0), min(err_best, 1e9))
        if err_best > 1.0:
            # say which half fails for the best permutation
            viol.append(dict(sig="jacobian-or-slices-mismatch", cls=f"mismatch:{aggname}:{'default' if listing is None else 'explicit'}",
                             msg=f"{P.prog_str(prog, outs)} | {sig_cfg} | best block order {found} err/tol={err_best:.3g} "
                                 f"M={np.round(M, 6).tolist()} Jref={np.round(J, 6).tolist()}"[:900], cfg=sig_cfg))
            continue
        col_orders_seen.add((tuple(eff), found))
        # (3) exact linear oracle for Constant, computed without the library
        if aggname == "const":
            w = np.array(WEIGHTS[:m])
            exp = w @ J
            off = 0
            for l in eff:
                n = t.numel(l)
                e = float(np.abs(exp[off:off + n].reshape(t.shapes[l]) - delta[l]).max())
                sc = max(1.0, float(np.abs(w).max()) * scale)
                margin = max(margin, e / (tol * sc * 8))
                maxima[f"constant-value:{dtype}"] = max(maxima.get(f"constant-value:{dtype}", 0.0), e / (tol * sc * 8))
                if not (e <= tol * sc * 8):  # NaN-safe
                    viol.append(dict(sig="constant-weights-value-mismatch", cls="constvalue",
                                     msg=f"{P.prog_str(prog, outs)} | {sig_cfg} | leaf {l}: got {delta[l].tolist()} expected "
                                         f"{exp[off:off + n].tolist()}"[:900], cfg=sig_cfg))
                    break
                off += n
        if m >= 2 and len(eff) >= 2:
            nontrivial.add(tuple(eff))
        outcomes.add(digest([np.round(delta[i], 6).tolist() for i in eff]))
    counters["col_orders"] = len(col_orders_seen)
    return dict(viol=viol, execs=execs, outcomes=sorted(outcomes), nontrivial=len(nontrivial), margin=margin, counters=counters, maxima=maxima)


def finalize(tier, seed, agg, cases, results):
    from mc.runner import HarnessError

    notes = dict(seam_live=agg["counters"].get("seam_hits", 0) > 0,
                 column_orders_observed=agg["counters"].get("col_orders", 0))
    if not notes["seam_live"]:
        notes["seam_note"] = "set-order seam never hit: only listing-order rotation was effective"
    return dict(notes=notes)
