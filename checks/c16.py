"""C16 — Byzantine-robust aggregators ignore a bounded number of arbitrary rows (DESIGN §3 C16).

Fault enumeration (E-enum): every honest matrix of a finite alphabet x every admissible (b) / (f, k) x EVERY subset S
of <= b (resp. <= f) rows corrupted x every assignment of corruption rows from a 12-element table to S; the real
TrimmedMean / Krum is executed on every corrupted matrix and compared with boring references
(mc.refmodels.trimmed_mean_ref = Python ``sorted``; mc.refmodels.krum_scores = brute-force distances).

Quotient used (stated, exact): the input the library sees, and everything the oracles read, depends on the honest
matrix only through its UNTOUCHED rows (the rows in S are overwritten). Enumerating all {0,1,2} honest m x n matrices
and all subsets S therefore yields every distinct corrupted matrix 3^(|S| n) times, byte for byte. The check
enumerates (S, untouched (m-|S|) x n matrix, corruption assignment) instead: the same set of distinct library
inputs, each executed once. "Honest scale" = largest absolute entry of the untouched rows (1 if they are all zero).

What is asserted (nothing beyond the statement):
  TrimmedMean(b): (T1) output = per column mean of sorted[b : m-b] (reference, to summation rounding);
                  (T2) every output coordinate lies in [min, max] of the untouched rows' column;
  Krum(f, k):     (K1) the weights are k entries equal to 1/k and m-k entries equal to 0 (k DISTINCT rows, plain
                  average) and the output is the mean of exactly these rows;
                  (K2) every selected row's reference score (sum of its m-f-2 smallest non-self distances) is <= every
                  unselected row's score, up to a tolerance relative to the scores' magnitude (any choice among
                  tied rows is admissible);
                  (K3) corollary that really follows from (K2): when the corrupted rows are pairwise far apart
                  (pairwise distinct table entries) and k <= m-|S|, no corrupted row is selected. The statement does
                  NOT promise that Krum never selects a corrupted row in general (two coinciding corrupted rows
                  have score 0 for m-f-2 = 1, and k > m-|S| forces one in): those executions are counted, not flagged.
  both:           (R) every row count below the minimum (2b+1; max(f+3, k)) => ValueError, the minimum itself is accepted.
"""
from __future__ import annotations

import itertools
import math

import numpy as np

from mc import alphabets as A
from mc import refmodels as R
from mc.runner import HarnessError

SPEC = dict(
    property_id="C16",
    level="fault_enumeration",
    rule=(
        "case = (shape, corrupted subset S, block of untouched-row matrices, dtype); execution = one call of the real "
        "TrimmedMean(b) / Krum(f,k) on one corrupted matrix (one assignment of corruption rows to S); non-trivial = "
        "executions with >= 1 corrupted row (a fault was really injected and had to be ignored)"
    ),
    bound=dict(
        quick="honest {0,1,2} matrices of shapes {3,4}x{1,2} and 5x1 (all), D(seed) for m in 3..5, n in 1..3; all "
        "b <= (m-1)//2, all (f<=m-3, k<=m); every subset of <= b / <= f rows; every assignment of the 12 (6 for n=1) "
        "corruption rows; float64 and float32; too-few-rows for b<=3, f<=3, k<=f+5; tall matrices (26 and 30 rows, offsets up to 1e4); buffer re-use histories",
        thorough="as quick plus all 59 049 honest {0,1,2} matrices of shape 5x2 (float64; float32 for |S|<=1)",
    ),
    assumptions=[
        "matrices off the finite alphabet are not covered; m <= 5",
        "corruption rows: {+-1e3, +-1e6, +-1e12} x honest scale x {(1,..,1), (1,-1,..)}; other finite values are not covered",
        "identical corrupted matrices arising from different honest matrices are executed once (the aggregators are pure: C11)",
    ],
    min_outcomes=20,
    min_nontrivial=100,
)

MULTS = (1e3, -1e3, 1e6, -1e6, 1e12, -1e12)
ENT = (0, 1, 2)
DETERMINISM_SLICE = 8
B_REJECT = (0, 1, 2, 3)
F_REJECT = (0, 1, 2, 3)


def _values(n):
    pats = [np.ones(n)]
    if n >= 2:
        pats.append(np.array([(-1.0) ** j for j in range(n)]))
    return [mu * p for mu in MULTS for p in pats]


def _bmax(m):
    return (m - 1) // 2


def _fmax(m):
    return m - 3


def _nconfigs(m, r):
    return sum(1 for b in range(_bmax(m) + 1) if b >= r) + m * sum(1 for f in range(_fmax(m) + 1) if f >= r)


def gen_cases(tier, seed):
    cases = []
    target = 2500 if tier == "quick" else 25000
    shapes = [(3, 1), (3, 2), (4, 1), (4, 2), (5, 1)] + ([(5, 2)] if tier == "thorough" else [])
    for (m, n) in shapes:
        nv = len(_values(n))
        for r in range(max(_bmax(m), _fmax(m)) + 1):
            for S in itertools.combinations(range(m), r):
                NU = 3 ** ((m - r) * n)
                work = (nv ** r) * _nconfigs(m, r)
                bs = max(1, target // work)
                for dtype in ("float64", "float32"):
                    if (m, n) == (5, 2) and r == 2 and dtype == "float32":
                        continue
                    for lo in range(0, NU, bs):
                        cases.append(dict(kind="int", m=m, n=n, S=list(S), lo=lo, hi=min(NU, lo + bs), dtype=dtype))
    for m in (3, 4, 5):
        for n in (1, 2, 3):
            for r in range(max(_bmax(m), _fmax(m)) + 1):
                for S in itertools.combinations(range(m), r):
                    for dtype in ("float64", "float32"):
                        cases.append(dict(kind="dense", m=m, n=n, S=list(S), seed=seed, dtype=dtype))
    for n in (1, 2):
        for dtype in ("float64", "float32"):
            cases.append(dict(kind="reject", n=n, dtype=dtype, seed=seed))
    # tall matrices with a large common offset (added after a seeded change - Krum's distances computed with the matrix-
    # multiplication formula, which torch.cdist only switches to above 25 rows - was missed): m in {26, 30}
    for m in (26, 30):
        for n in (1, 2):
            for offset in (0.0, 1e3, 1e4):
                for dtype in ("float64", "float32"):
                    cases.append(dict(kind="tall", m=m, n=n, offset=offset, dtype=dtype))
    # wide matrices (added after a seeded change - Krum's distances accumulated over blocks of 2048 columns as a sum of block
    # norms instead of the root of the sum of squares - was missed: every matrix had <= 3 columns)
    for n in (2500, 4100, 9000):
        for dtype in ("float64", "float32"):
            cases.append(dict(kind="wide", n=n, dtype=dtype))
    cases.append(dict(kind="bufreuse"))  # one instance, one matrix buffer re-filled in place (mc/bufreuse.py)
    return cases


# ------------------------------------------------------------------------------------------------ real code, cached
_AGG = {}


def _tm(b):
    from torchjd.aggregation import TrimmedMean

    k = ("tm", b)
    if k not in _AGG:
        _AGG[k] = TrimmedMean(trim_number=b)
    return _AGG[k]


def _krum(f, k):
    from torchjd.aggregation import Krum

    key = ("krum", f, k)
    if key not in _AGG:
        agg = Krum(n_byzantine=f, n_selected=k)
        box = []
        agg.weighting.register_forward_hook(lambda mod, inp, out, box=box: box.append(out))
        _AGG[key] = (agg, box)
    return _AGG[key]


class _Acc:
    def __init__(self):
        self.viol, self.outcomes, self.maxima, self.counters = [], set(), {}, {}
        self.execs = self.nontriv = 0

    def mg(self, key, v):
        if v > self.maxima.get(key, 0.0):
            self.maxima[key] = v

    def cnt(self, key, v=1):
        self.counters[key] = self.counters.get(key, 0) + v

    def result(self, dropped=0):
        return dict(
            viol=self.viol,
            execs=self.execs,
            outcomes=sorted(self.outcomes),
            nontrivial=self.nontriv,
            dropped=dropped,
            margin=max(self.maxima.values()) if self.maxima else 0.0,
            maxima=self.maxima,
            counters=self.counters,
        )


def _desc(Jd, S, dtype):
    if Jd.shape[1] > 16:  # wide family: the matrix is rebuilt from the case (kind='wide', n, dtype) on replay
        return f"J=<{Jd.shape[0]}x{Jd.shape[1]} wide family, first columns {Jd[:, :3].tolist()}> corrupted_rows={list(S)} {dtype}"
    return f"J={Jd.tolist()} corrupted_rows={list(S)} {dtype}"


def _check_tm(acc, Jt, Jd, S, untouched, sigma, b, dtype, intalpha):
    m, n = Jd.shape
    f32 = dtype == "float32"
    acc.execs += 1
    try:
        x = _tm(b)(Jt)
    except Exception as e:
        acc.viol.append(dict(sig=f"exception:TrimmedMean:{type(e).__name__}", cls=f"exc:tm:{dtype}",
                             msg=f"TrimmedMean({b}) {_desc(Jd, S, dtype)}: {e!r}"[:500]))
        return
    if x.dtype != Jt.dtype or tuple(x.shape) != (n,):
        acc.viol.append(dict(sig="bad-output-type:TrimmedMean", msg=f"dtype={x.dtype} shape={tuple(x.shape)}"))
        return
    x = x.double().numpy()
    ref = R.trimmed_mean_ref(Jd, b)
    rel = 1e-5 if f32 else 1e-12
    # (T1) equality with the sorted reference; the kept values are bounded by the largest kept magnitude per column
    for c in range(n):
        kept = sorted(Jd[:, c].tolist())[b: m - b]
        sc = max(abs(kept[0]), abs(kept[-1]), 1e-300)
        tol = rel * max(sc, sigma)
        e = abs(x[c] - ref[c])
        acc.mg(f"T1-sorted-reference:{dtype}", e / tol)
        if not e <= tol:
            acc.viol.append(dict(sig="trimmedmean-not-the-trimmed-column-mean", cls=f"T1:{dtype}:b={b}:r={len(S)}",
                                 msg=f"TrimmedMean({b}) {_desc(Jd, S, dtype)}: col {c}: got {x[c]!r} ref {ref[c]!r} tol {tol:.3g}"))
            return
    # (T2) within [min, max] of the untouched rows
    lo, hi = untouched.min(axis=0), untouched.max(axis=0)
    tol = rel * sigma
    out = float(np.max(np.maximum(lo - x, x - hi)))
    acc.mg(f"T2-within-untouched-range:{dtype}", max(out, 0.0) / tol)
    if not out <= tol:
        acc.viol.append(dict(sig="trimmedmean-outside-range-of-untouched-rows", cls=f"T2:{dtype}:b={b}:r={len(S)}",
                             msg=f"TrimmedMean({b}) {_desc(Jd, S, dtype)}: got {x.tolist()} range lo={lo.tolist()} hi={hi.tolist()}"))
        return
    if intalpha:
        acc.outcomes.add(f"T{m}.{b}.{len(S)}:" + ",".join(str(int(round(v * (m - 2 * b)))) for v in x))
    else:
        acc.outcomes.add(f"T{m}.{b}.{len(S)}:" + ",".join(f"{v / sigma:.4f}" for v in x))


def _check_krum(acc, Jt, Jd, S, sigma, f, k, dtype, scores, distinct_corruption):
    m, n = Jd.shape
    f32 = dtype == "float32"
    acc.execs += 1
    agg, box = _krum(f, k)
    del box[:]
    try:
        x = agg(Jt)
    except Exception as e:
        acc.viol.append(dict(sig=f"exception:Krum:{type(e).__name__}", cls=f"exc:krum:{dtype}",
                             msg=f"Krum({f},{k}) {_desc(Jd, S, dtype)}: {e!r}"[:500]))
        return
    if x.dtype != Jt.dtype or tuple(x.shape) != (n,) or len(box) != 1 or tuple(box[0].shape) != (m,):
        acc.viol.append(dict(sig="bad-output-type:Krum", msg=f"dtype={x.dtype} shape={tuple(x.shape)} weighting calls={len(box)}"))
        return
    w = box[0].double().numpy()
    x = x.double().numpy()
    eps = 1.2e-7 if f32 else 2.3e-16
    # (K1) plain average of exactly k distinct rows
    sel = [i for i in range(m) if w[i] != 0.0]
    ew = max([abs(w[i] - 1.0 / k) for i in sel], default=0.0)
    acc.mg(f"K1-weights-1/k:{dtype}", ew / (4 * eps))
    if len(sel) != k or ew > 4 * eps:
        acc.viol.append(dict(sig="krum-not-plain-average-of-k-distinct-rows", cls=f"K1w:{dtype}:f={f}:k={k}",
                             msg=f"Krum({f},{k}) {_desc(Jd, S, dtype)}: weights={w.tolist()}"))
        return
    rows = Jd[sel]
    mean = np.array([math.fsum(rows[:, c].tolist()) / k for c in range(n)])
    tol = (1e-5 if f32 else 1e-12) * max(float(np.abs(rows).max()), sigma)
    e = float(np.abs(x - mean).max())
    acc.mg(f"K1-output-is-mean:{dtype}", e / tol)
    if not e <= tol:
        acc.viol.append(dict(sig="krum-output-not-mean-of-selected-rows", cls=f"K1x:{dtype}:f={f}:k={k}",
                             msg=f"Krum({f},{k}) {_desc(Jd, S, dtype)}: selected={sel} got {x.tolist()} mean {mean.tolist()}"))
        return
    # (K2) admissible selection: no unselected row has a smaller score than a selected one
    uns = [i for i in range(m) if w[i] == 0.0]
    if uns:
        hi_sel = max(scores[i] for i in sel)
        lo_uns = min(scores[i] for i in uns)
        tol = (2e-5 if f32 else 1e-9) * max(abs(hi_sel), abs(lo_uns)) + (1e-5 if f32 else 1e-12) * sigma
        ex = hi_sel - lo_uns
        acc.mg(f"K2-score-order:{dtype}", max(ex, 0.0) / tol)
        if ex == 0.0 or abs(ex) <= tol:
            acc.cnt("krum_tied_boundary")
        if not ex <= tol:
            acc.viol.append(dict(sig="krum-selected-row-with-larger-score", cls=f"K2:{dtype}:m={m}:f={f}:r={len(S)}",
                                 msg=f"Krum({f},{k}) {_desc(Jd, S, dtype)}: selected={sel} reference scores (m-f-2={m - f - 2} nearest)={scores}"))
            return
    # (K3) corollary: far, pairwise distinct outliers are never selected while honest rows are left
    nc = len(set(sel) & set(S))
    if nc:
        acc.cnt("krum_selected_a_corrupted_row")
    if S and distinct_corruption and k <= m - len(S):
        acc.cnt("krum_K3_applicable")
        if nc:
            acc.viol.append(dict(sig="krum-selected-a-far-outlier", cls=f"K3:{dtype}:m={m}:f={f}",
                                 msg=f"Krum({f},{k}) {_desc(Jd, S, dtype)}: selected={sel}"))
            return
    acc.outcomes.add(f"K{m}.{f}.{k}.{len(S)}:" + "".join(str(i) for i in sel))


def _explore(acc, U, S, m, n, dtype, intalpha):
    """all corruption assignments for S on the untouched matrix U ((m-|S|) x n), all configurations."""
    import torch

    dt = getattr(torch, dtype)
    r = len(S)
    V = _values(n)
    sigma = float(np.abs(U).max()) or 1.0
    keep = [i for i in range(m) if i not in S]
    for assign in itertools.product(range(len(V)), repeat=r):
        J = np.empty((m, n))
        J[keep] = U
        for pos, vi in zip(S, assign):
            J[pos] = V[vi] * sigma
        Jt = torch.tensor(J, dtype=dt)
        Jd = Jt.double().numpy()
        untouched = Jd[keep]
        distinct = len(set(assign)) == r
        for b in range(r, _bmax(m) + 1):
            _check_tm(acc, Jt, Jd, S, untouched, sigma, b, dtype, intalpha)
        for f in range(r, _fmax(m) + 1):
            scores = R.krum_scores(Jd, f)
            for k in range(1, m + 1):
                _check_krum(acc, Jt, Jd, S, sigma, f, k, dtype, scores, distinct)
        if r:
            acc.nontriv += _nconfigs(m, r)


def _run_reject(acc, case):
    import torch
    from torchjd.aggregation import Krum, TrimmedMean

    dt = getattr(torch, case["dtype"])
    n = case["n"]
    base = A.dense(case["seed"], 9, n, 1)[0]

    def probe(name, make, minrows, key):
        for m in range(0, minrows + 1):
            Jt = torch.tensor(base[:m].reshape(m, n), dtype=dt)
            acc.execs += 1
            try:
                x = make()(Jt)
                out = "ok"
            except ValueError:
                out = "ValueError"
            except Exception as e:
                out = type(e).__name__
            want = "ValueError" if m < minrows else "ok"
            acc.outcomes.add(f"R:{name}:{'below' if m < minrows else 'min'}:{out}")
            if out != want:
                sig = "too-few-rows-not-rejected" if want == "ValueError" else "minimum-row-count-rejected"
                acc.viol.append(dict(sig=f"{sig}:{name}", cls=f"R:{name}:{want}:{out}",
                                     msg=f"{key} on a {m}x{n} matrix ({case['dtype']}): outcome {out}, expected {want} (minimum rows {minrows})"))
            elif out == "ok" and not (tuple(x.shape) == (n,) and bool(torch.isfinite(x).all())):
                acc.viol.append(dict(sig=f"minimum-row-count-bad-output:{name}", msg=f"{key} on {m}x{n}: {x}"))
            if m < minrows:
                acc.nontriv += 1

    for b in B_REJECT:
        probe("TrimmedMean", lambda: TrimmedMean(trim_number=b), 2 * b + 1, f"TrimmedMean({b})")
    for f in F_REJECT:
        for k in range(1, f + 6):
            probe("Krum", lambda: Krum(n_byzantine=f, n_selected=k), max(f + 3, k), f"Krum({f},{k})")


def _run_tall(acc, case):
    """honest rows offset + small integers; every subset of <= 1 corrupted rows among {first, middle, last} x every corruption value;
    TrimmedMean b in {r, 2, 5}, Krum f in {r, 2}, k in {1, 3, m - f}."""
    import torch

    m, n, off, dtype = case["m"], case["n"], case["offset"], case["dtype"]
    dt = getattr(torch, dtype)
    base = np.array([[off + ((7 * i + 3 * j) % 5) + (i % 3 == 0) * 0.5 for j in range(n)] for i in range(m)])
    V = _values(n)
    for S in [()] + [(p,) for p in (0, m // 2, m - 1)]:
        keep = [i for i in range(m) if i not in S]
        sigma = float(np.abs(base[keep]).max()) or 1.0
        for vi in (range(len(V)) if S else [0]):
            J = base.copy()
            for pos in S:
                J[pos] = V[vi] * sigma
            Jt = torch.tensor(J, dtype=dt)
            Jd = Jt.double().numpy()
            r = len(S)
            for b in sorted({r, 2, 5}):
                _check_tm(acc, Jt, Jd, S, Jd[keep], sigma, b, dtype, False)
            for f in sorted({r, 2}):
                scores = R.krum_scores(Jd, f)
                for k in sorted({1, 3, m - f}):
                    _check_krum(acc, Jt, Jd, S, sigma, f, k, dtype, scores, True)
            acc.nontriv += int(bool(S))


def _run_wide(acc, case):
    """n in the thousands; honest rows = ones + deviations that are spread over all columns (rows 1, 2) or concentrated on one
    column (rows 3, 4), sized so that the k = 2 selection changes if distances are not the global Euclidean ones (counted in
    `wide_block_sensitive` against a blockwise-sum model with blocks of 2048); with and without one far corrupted row at every
    position x every corruption value; Krum f in {r, 1}, k in {1, 2, 3}; TrimmedMean b in {r, 1}."""
    import torch

    n, dtype = case["n"], case["dtype"]
    dt = getattr(torch, dtype)
    j = np.arange(n)
    s1 = np.where(j % 2 == 0, 1.0, -1.0) / math.sqrt(n)
    s2 = np.where((j // 2) % 2 == 0, 1.0, -1.0) / math.sqrt(n)
    e0 = np.zeros(n); e0[0] = 1.0
    e1 = np.zeros(n); e1[1] = 1.0
    honest = np.ones((5, n)) + np.stack([0 * s1, 1.0 * s1, 1.05 * s2, 1.2 * e0, 1.2 * e1])
    V = _values(n)
    for pos in [None] + list(range(6)):
        for vi in (range(len(V)) if pos is not None else [0]):
            if pos is None:
                J, S = honest.copy(), ()
            else:
                J = np.insert(honest, pos, V[vi] * 2.2, axis=0)
                S = (pos,)
            m = J.shape[0]
            keep = [i for i in range(m) if i not in S]
            Jt = torch.tensor(J, dtype=dt)
            Jd = Jt.double().numpy()
            sigma = float(np.abs(Jd[keep]).max())
            r = len(S)
            for b in sorted({r, 1}):
                _check_tm(acc, Jt, Jd, S, Jd[keep], sigma, b, dtype, False)
            for f in sorted({r, 1}):
                scores = R.krum_scores(Jd, f)
                D = sum(np.sqrt(((Jd[:, None, lo:lo + 2048] - Jd[None, :, lo:lo + 2048]) ** 2).sum(axis=2)) for lo in range(0, n, 2048))
                alt = [float(np.sort(np.delete(D[i], i))[: m - f - 2].sum()) for i in range(m)]
                for k in (1, 2, 3):
                    if set(np.argsort(scores)[:k].tolist()) != set(np.argsort(alt)[:k].tolist()):
                        acc.cnt("wide_block_sensitive")
                    _check_krum(acc, Jt, Jd, S, sigma, f, k, dtype, scores, True)
            acc.nontriv += int(bool(S))


def run_case(case):
    if case["kind"] == "wide":
        acc = _Acc()
        _run_wide(acc, case)
        return acc.result()
    if case["kind"] == "bufreuse":
        from torchjd import aggregation as T

        from mc import bufreuse

        return bufreuse.run({"TrimmedMean(1)": lambda dt: T.TrimmedMean(1), "TrimmedMean(2)": lambda dt: T.TrimmedMean(2), "Krum(0,1)": lambda dt: T.Krum(0, 1),
                             "Krum(1,2)": lambda dt: T.Krum(1, 2), "Krum(2,3)": lambda dt: T.Krum(2, 3)}, shape=(6, 3))
    acc = _Acc()
    if case["kind"] == "reject":
        _run_reject(acc, case)
        return acc.result()
    if case["kind"] == "tall":
        _run_tall(acc, case)
        return acc.result()
    m, n, S, dtype = case["m"], case["n"], tuple(case["S"]), case["dtype"]
    r = len(S)
    if case["kind"] == "int":
        for idx in range(case["lo"], case["hi"]):
            U = A.ternary_index(m - r, n, idx, entries=ENT)
            _explore(acc, U, S, m, n, dtype, True)
    else:
        keep = [i for i in range(m) if i not in S]
        mats = A.dense(case["seed"], m, n, 8)
        if len(mats) != 8:
            raise HarnessError("dense family changed size")
        for J0 in mats:
            _explore(acc, J0[keep], S, m, n, dtype, False)
    return acc.result()
