"""C07 — parallel_chunk_size is a pure performance knob (DESIGN §3 C07).

Exhaustive over all (m, k): m in 1..12 rows, k in {None, 1..m+2}, retain_graph both ways, six program shapes
for backward (m scalars spread over 1..3 tensors, or m 0-d tensors) and mtl_backward with m tasks.
Oracles: (a) same .grad for every k and equal to torch.autograd on a twin graph; (b) a tensor hook on an
intermediate between the differentiated tensors and the parameters sees exactly ceil(m/k) sweeps of widths
(k,..,k,remainder), unbatched iff width 1; (c) with a Function whose backward cannot be vmapped in the graph,
k = 1 and m = 1 succeed with the right value.
"""
from __future__ import annotations

import math

import numpy as np

from mc.runner import digest

SPEC = dict(
    property_id="C07",
    level="model_checking",
    rule=(
        "case = (entry point, program shape, m, retain_graph); executions = one real call per chunk size k in {None,1..m+2} "
        "(plus the vmap-hostile variants for k=1 / m=1); state = (m, k, recorded sweep widths); non-trivial = distinct (case, k) "
        "with 1 < k < m and m mod k != 0 (a remainder sweep exists)"
    ),
    bound=dict(quick="all (m,k), m<=12, k in {None,1..m+2}; 7 backward shapes (incl. mixed dtype) + mtl + mtl with losses that ignore the features; retain_graph in {F,T}; "
                    "m=300 (backward) and m=70 (mtl) with chunk sizes around 64/256/m", thorough="m <= 24"),
    assumptions=["programs limited to the shapes in this file", "sweeps observed through tensor hooks and torch._C._functorch introspection"],
)

SHAPES = ("one", "two", "three", "nonlin", "scalars", "mixed2d", "mixed-dtype")


def gen_cases(tier, seed):
    M = 12 if tier == "quick" else 24
    cases = []
    for m in range(1, M + 1):
        for rg in (False, True):
            for sh in SHAPES:
                if (sh == "two" and m < 2) or (sh in ("three", "mixed2d") and m < 3):
                    continue
                cases.append(dict(ep="bw", shape=sh, m=m, retain=rg, seed=seed))
            cases.append(dict(ep="mtl", shape="mtl", m=m, retain=rg, seed=seed))
            if m >= 2:  # some losses do not depend on the features at all: their Jacobian rows are zero, the sweeps are the same
                cases.append(dict(ep="mtl", shape="mtl-inactive", m=m, retain=rg, seed=seed))
    # many rows (size thresholds: vmap's own chunking, pre-allocated buffers, ...): m = 300, a few chunk sizes around the thresholds
    for sh in ("one", "scalars"):
        cases.append(dict(ep="bw", shape=sh, m=300, retain=False, seed=seed, ks=[None, 1, 7, 64, 255, 256, 257, 299, 300, 1000]))
    cases.append(dict(ep="mtl", shape="mtl", m=70, retain=False, seed=seed, ks=[None, 1, 7, 64, 69, 70, 71]))
    return cases


def _W(m, n, seed):
    return np.array([[round(math.sin(1.3 * i + 0.7 * j + 0.1 * (seed % 8)) * 2, 3) for j in range(n)] for i in range(m)])


def _build_bw(shape, m, seed, novmap):
    import torch

    from mc.seams import NoVmapIdentity

    a = torch.tensor([0.7, -1.3, 2.1], dtype=torch.float64, requires_grad=True)
    b = torch.tensor(1.5, dtype=torch.float64, requires_grad=True)
    h = a * b
    hk = NoVmapIdentity.apply(h) if novmap else h
    W = torch.tensor(_W(m, 3, seed), dtype=torch.float64)
    y = W @ hk
    if shape == "one":
        outs = [y]
    elif shape == "two":
        k = (m + 1) // 2
        outs = [y[:k], y[k:]]
    elif shape == "three":
        outs = [y[0], y[1:2], y[2:]]
    elif shape == "nonlin":
        outs = [torch.sin(y) * b]
    elif shape == "scalars":
        outs = [y[i] for i in range(m)]
    elif shape == "mixed-dtype":  # float64 parameters, float32 outputs (mixed precision): the Jacobian has the parameters' dtype
        outs = [y.float()]
    else:  # mixed2d: a 0-d, and the rest 2-d when even else 1-d
        rest = y[1:]
        if rest.numel() % 2 == 0:
            rest = rest.reshape(2, -1)
        outs = [y[0] * y[0], rest]
    return dict(params=[a, b], hook_on=h, outs=outs)


def _build_mtl(m, seed, novmap, inactive=False):
    import torch

    from mc.seams import NoVmapIdentity

    a = torch.tensor([0.7, -1.3, 2.1], dtype=torch.float64, requires_grad=True)
    b = torch.tensor(1.5, dtype=torch.float64, requires_grad=True)
    h = a * b
    hk = NoVmapIdentity.apply(h) if novmap == "trunk" else h
    f0 = torch.sin(hk)
    f1 = hk.sum().reshape(1) * b
    W = _W(m, 3, seed)
    ps, losses = [], []
    for i in range(m):
        p = torch.tensor(W[i], dtype=torch.float64, requires_grad=True)
        ps.append(p)
        z = (f0 * p).sum() + (0.5 + i) * f1.sum()
        if inactive and (i == m - 1 or i % 3 == 1):
            z = (p * p).sum()  # ignores the shared features
        if novmap == "head":
            z = NoVmapIdentity.apply(z)
        losses.append(z)
    return dict(params=[a, b], hook_on=h, feats=[f0, f1], losses=losses, tparams=[[p] for p in ps])


def _expected_sweeps(m, k):
    kk = m if k is None else k
    n = math.ceil(m / kk)
    widths = [kk] * (n - 1) + [m - kk * (n - 1)]
    return [(w, w > 1) for w in widths]


def _call(ep, B, agg, k, rg):
    from torchjd import backward, mtl_backward

    if ep == "bw":
        backward(B["outs"], agg, inputs=B["params"], retain_graph=rg, parallel_chunk_size=k)
    else:
        mtl_backward(B["losses"], B["feats"], agg, tasks_params=B["tparams"], shared_params=B["params"], retain_graph=rg,
                     parallel_chunk_size=k)


def run_case(case):
    import torch
    from torchjd.aggregation import Constant, UPGrad

    from mc.seams import SweepRecorder

    ep, m, rg, seed = case["ep"], case["m"], case["retain"], case["seed"]
    w = [float(i + 1) * (-1.0 if i % 3 == 2 else 1.0) for i in range(m)]
    viol, outcomes, execs, nontriv = [], set(), 0, 0
    build = (lambda nv: _build_bw(case["shape"], m, seed, nv)) if ep == "bw" else (lambda nv: _build_mtl(m, seed, nv, case["shape"] == "mtl-inactive"))
    # twin: torch.autograd with grad_tensors = w
    T = build(False)
    if ep == "bw":
        gts, off = [], 0
        for o in T["outs"]:
            n = o.numel()
            gts.append(torch.tensor(w[off:off + n], dtype=o.dtype).reshape(o.shape))
            off += n
        torch.autograd.backward(T["outs"], grad_tensors=gts, inputs=T["params"])
    else:
        total = sum(wi * L for wi, L in zip(w, T["losses"]))
        # through the features only: every path to a, b goes through the features in this program
        torch.autograd.backward(total, inputs=T["params"])
    ref = [p.grad.detach().clone() for p in T["params"]]
    ks = case.get("ks") or ([None] + list(range(1, m + 3)))
    results = {}
    for aggname in ("const", "upgrad"):
        for k in ks:
            if aggname == "upgrad" and k not in (None, 1, 2, m):
                continue
            B = build(False)
            rec = SweepRecorder(B["hook_on"])
            agg = Constant(torch.tensor(w, dtype=torch.float64)) if aggname == "const" else UPGrad()
            desc = f"{ep}:{case['shape']} m={m} k={k} retain={rg} agg={aggname}"
            try:
                _call(ep, B, agg, k, rg)
            except Exception as e:
                viol.append(dict(sig=f"exception:{ep}:{type(e).__name__}", cls=f"exc:{ep}:{aggname}", msg=f"{desc}: {e!r}"[:500]))
                execs += 1
                continue
            execs += 1
            sweeps = list(rec.sweeps)
            rec.remove()
            exp = _expected_sweeps(m, k)
            outcomes.add(digest([m, k, sweeps]))
            if sweeps != exp:
                viol.append(dict(sig=f"sweeps:{ep}", cls=f"sweeps:{ep}:{'None' if k is None else ('1' if k == 1 else 'k')}",
                                 msg=f"{desc}: observed sweeps (rows,batched) {sweeps}, expected {exp}"))
            g = [p.grad.detach().clone() for p in B["params"]]
            results[(aggname, k)] = g
            if aggname == "const":
                for gi, ri in zip(g, ref):
                    sc = max(1.0, float(ri.abs().max()))
                    if not (float((gi - ri).abs().max()) <= 1e-11 * sc):
                        viol.append(dict(sig=f"value-vs-autograd:{ep}", cls=f"value:{ep}", msg=f"{desc}: got {gi.tolist()} autograd {ri.tolist()}"))
                        break
            else:
                g0 = results.get(("upgrad", None))
                if g0 is not None:
                    for gi, ri in zip(g, g0):
                        sc = max(1.0, float(ri.abs().max()))
                        if not (float((gi - ri).abs().max()) <= 1e-9 * sc):
                            viol.append(dict(sig=f"value-differs-across-k:{ep}", cls=f"acrossk:{ep}", msg=f"{desc}: got {gi.tolist()} with k=None {ri.tolist()}"))
                            break
            if not rg and aggname == "const":
                # the graph must be freed exactly as torch.autograd.backward(retain_graph=False) frees it on the twin
                # (all but the last sweep retain it, the last one uses the caller's flag)
                def _again(Bx):
                    ts = Bx["outs"] if ep == "bw" else Bx["losses"]
                    try:
                        torch.autograd.grad(ts, Bx["params"], grad_outputs=[torch.ones_like(t_) for t_ in ts], allow_unused=True)
                        return "ok"
                    except RuntimeError:
                        return "freed"
                if "twin_after" not in results:
                    results["twin_after"] = _again(T)
                mine = _again(B)
                if mine != results["twin_after"]:
                    viol.append(dict(sig=f"graph-freeing-differs-from-autograd:{ep}", cls=f"freeing:{ep}:{'None' if k is None else 'k'}",
                                     msg=f"{desc}: a further differentiation after the call: {mine}; after torch.autograd.backward on the twin: {results['twin_after']}"))
            if rg:
                # graph must still be usable: an identical second call adds the same update
                try:
                    _call(ep, B, agg, k, rg)
                    execs += 1
                    for p, gi in zip(B["params"], g):
                        sc = max(1.0, float(gi.abs().max()))
                        if not (float((p.grad - 2 * gi).abs().max()) <= 1e-9 * sc):
                            viol.append(dict(sig=f"second-call-differs:{ep}", msg=f"{desc}"))
                            break
                except Exception as e:
                    viol.append(dict(sig=f"retained-graph-unusable:{ep}", msg=f"{desc}: {e!r}"[:400]))
            if k is not None and 1 < k < m and m % k != 0 and aggname == "const":
                nontriv += 1
    # (c) vmap-hostile Function in the graph
    variants = [True] if ep == "bw" else ["trunk", "head"]
    for nv in variants:
        for k in ks:
            sequential = (k == 1) or (m == 1) or (nv == "head")
            if not sequential:
                continue
            if nv == "head" and k not in (None, 1, 2, m):
                continue
            B = build(nv)
            desc = f"{ep}:{case['shape']} m={m} k={k} retain={rg} novmap={nv}"
            try:
                _call(ep, B, Constant(torch.tensor(w, dtype=torch.float64)), k, rg)
                execs += 1
            except Exception as e:
                execs += 1
                viol.append(dict(sig=f"sequential-relies-on-vmap:{ep}", cls=f"novmap:{ep}:{nv}:{'k1' if k == 1 else 'm1' if m == 1 else 'head'}",
                                 msg=f"{desc}: {type(e).__name__}: {str(e)[:200]}"))
                continue
            for p, ri in zip(B["params"], ref):
                sc = max(1.0, float(ri.abs().max()))
                if not (float((p.grad - ri).abs().max()) <= 1e-11 * sc):
                    viol.append(dict(sig=f"novmap-value:{ep}", msg=f"{desc}: got {p.grad.tolist()} expected {ri.tolist()}"))
                    break
            outcomes.add(digest(["novmap", m, k, nv]))
    return dict(viol=viol, execs=execs, outcomes=sorted(outcomes), nontrivial=nontriv)
