"""C11 — aggregators are total, pure, stateless and positively homogeneous (DESIGN §3 C11).

E-enum over (aggregator configuration x matrix alphabet x dtype x full scale ladder) for parts (a) totality,
(c) purity and (f) homogeneity, which share their executions; fault enumeration for (b) rejection; E-hist
(all call histories of <= 3 calls over a 4-matrix alphabet, compared bit-for-bit with a fresh instance) for
(d) statelessness; all seeds 0..7 twice for (e). NashMTL is excluded by the statement.

Case kinds
    scale  : block of matrices x configuration group x dtypes x every rung            -> (a), (c), (f)
    reject : one aggregator configuration x every malformed input kind x dtypes        -> (b)
    hist   : one aggregator configuration x one alphabet x all histories of <= 3 calls  -> (d)
    seed   : one randomised aggregator x block of matrices x z in 0..7                  -> (e)

Violation signatures (stable; they are what /verif/known_findings.json matches on)
    totality:<Agg>:<dtype>:scale=<rung>:<exception class | nonfinite | shape | dtype>
    purity:<Agg>:<dtype>:<input-modified | version-bumped>
    homogeneity:<Agg>:<dtype>:scale=<rung>                 A(tJ)/t differs from A(J) by more than tol*s
    homogeneity:<Agg>:<dtype>:zero-matrix                  A(0) != 0
    homogeneity:IMTLG:guard-zero-output:<dtype>:scale=<rung>   well-posed input, A(J) != 0 but A(tJ) == 0 exactly
    homogeneity:IMTLG:guard-stationary:<dtype>:scale=<rung>    stationary input (1^T G^+ d = 0 in exact arithmetic):
                                                           exactly one of A(J), A(tJ) is the guard's zero vector
    rejection:<Agg>:<kind>:<what happened>
    stateful:<Agg>:<alphabet>
    seed:<Agg>
"""
from __future__ import annotations

import itertools
import math

import numpy as np

from mc import alphabets as A
from mc import refmodels as R
from mc.explorer import histories
from mc.generic import generic
from mc.runner import HarnessError, digest

SPEC = dict(
    property_id="C11",
    level="model_checking",
    rule=(
        "scale case = block of matrices x aggregator configurations x dtypes x every rung of the dtype's scale ladder, one "
        "execution of the real aggregator per (configuration, matrix, dtype, rung, replayed draw script); hist case = every "
        "history of <= 3 calls over a 4-matrix alphabet on one instance, last result compared bit-for-bit with a fresh "
        "instance; reject case = every malformed input kind; seed case = manual_seed(z) twice, z in 0..7. non-trivial = "
        "homogeneity comparisons A(tJ)/t vs A(J) actually asserted with A(J) != 0, plus histories whose earlier calls used a "
        "different matrix than the last one, plus malformed inputs asserted to be rejected, plus (matrix, aggregator) pairs "
        "whose output depends on the seed"
    ),
    bound=dict(
        quick=(
            "15 aggregators in 29 configurations (CAGrad(0), CAGrad(2) only in the reject cases); all {-1,0,1} matrices of shapes <= 2x3 and 3x1, 3x2 plus D(seed) shapes 1x1, 1x3, "
            "3x1, 4x2, 5x3 and G(seed) shapes 2x3, 3x3, 4x5; CAGrad on all shapes <= 2x2, 1x3, 3x1 and on the structural sublist canonical_ternary of 2x3, 3x2; "
            "SCALES32 x float32, SCALES64 x float64; histories <= 3 over two 4-matrix alphabets; seeds 0..7"
        ),
        thorough="as quick but all {-1,0,1} matrices up to 3x3 for every aggregator including CAGrad(0.5); CAGrad(0), CAGrad(2) on all shapes <= 2x2, 1x3, 3x1",
    ),
    assumptions=[
        "matrices off the finite alphabets are not covered; scales are the rungs of SCALES32 / SCALES64 only",
        "homogeneity of UPGrad/DualProj/CAGrad only where sigma_max >= 1.01 norm_eps on both sides (statement's carve-out, 1% guard band for the float32 rounding of sigma_max)",
        "pinv/eigh based aggregators (IMTLG, ConFIG, AlignedMTL): homogeneity only on inputs of unambiguous rank = well-conditioned full rank, or exactly singular {-1,0,1} matrices; dense rank-deficient inputs are dropped (counted)",
        "IMTLG homogeneity: well-posed inputs |1^T G^+ d| max d >= 1e-6 (1e-3 in float32) with tolerance amplified by its inverse; exactly stationary inputs (float32: integer matrices only) are asserted with the plain tolerance (guard-stationary)",
        "CAGrad homogeneity only on reference-certified non-stationary inputs (its zero-at-stationarity escape is a discontinuity), tolerance 1e-3 s = 10 x sqrt(Clarabel's 1e-8) (observed 1.3e-5 s)",
        "MGDA homogeneity under argmin ties of its Frank-Wolfe loop (rounding breaks exact ties differently at different scales): the output must be one of the runs obtained by breaking the ties in every possible way (E-choice over a float64 replica of the loop, <= 16 runs, else dropped)",
        "ConFIG homogeneity only where |pinv(units) w| >= 1e-6 |w| (1e-3 in float32): it normalises that vector (exact-zero test), tolerance amplified by the inverse",
        "tolerances relative to s = sigma_max(J): 1e-9 s (float64), 2e-4 s (float32); UPGrad/DualProj float32 1e-3 s (eps32 / reg_eps)",
        "Krum homogeneity under score ties: the output must be the mean of an admissible selection",
        "draws of PCGrad/GradDrop/Random are replayed from a fixed small alphabet of scripts (the same script on both sides)",
    ],
    min_outcomes=50,
    min_nontrivial=50,
)

DETERMINISM_SLICE = 10
BLOCK = 10
ASSERT_IMTLG_STATIONARY64 = True

DTYPES = ("float32", "float64")
LADDER = dict(float32=A.SCALES32, float64=A.SCALES64)
TOL = dict(float32=2e-4, float64=1e-9)
NORM_EPS_DEFAULT = 1e-4


# ----------------------------------------------------------------------------- configurations
def _vec(vals, m, dt):
    import torch

    return torch.tensor([vals[i % len(vals)] for i in range(m)], dtype=dt)


def _inc(m, dt):
    import torch

    v = torch.arange(1, m + 1, dtype=dt)
    return v / v.sum()


def _tiny(m, dt):
    import torch

    v = torch.ones(m, dtype=dt)
    v[0] = 1e-3
    return v


CW = (1.0, -2.0, 0.0, 3.0, 5.0)
LEAK = (0.0, 0.5, 1.0, 0.25, 0.75)


def _builders():
    from torchjd import aggregation as T

    # key -> (class name, min rows, build(m, torch dtype), norm_eps or None, dtypes, group)
    B = {}

    def add(key, name, build, min_rows=1, norm_eps=None, dtypes=DTYPES, group="fast"):
        B[key] = dict(key=key, name=name, build=build, min_rows=min_rows, norm_eps=norm_eps, dtypes=dtypes, group=group)

    add("UPGrad", "UPGrad", lambda m, dt: T.UPGrad(), norm_eps=1e-4)
    add("UPGrad[inc]", "UPGrad", lambda m, dt: T.UPGrad(pref_vector=_inc(m, dt)), norm_eps=1e-4)
    add("UPGrad[ne=1e-13]", "UPGrad", lambda m, dt: T.UPGrad(norm_eps=1e-13), norm_eps=1e-13, dtypes=("float64",))
    add("DualProj", "DualProj", lambda m, dt: T.DualProj(), norm_eps=1e-4)
    add("DualProj[tiny]", "DualProj", lambda m, dt: T.DualProj(pref_vector=_tiny(m, dt)), norm_eps=1e-4)
    add("DualProj[ne=1e-13]", "DualProj", lambda m, dt: T.DualProj(norm_eps=1e-13), norm_eps=1e-13, dtypes=("float64",))
    add("MGDA", "MGDA", lambda m, dt: T.MGDA())
    add("PCGrad", "PCGrad", lambda m, dt: T.PCGrad())
    add("IMTLG", "IMTLG", lambda m, dt: T.IMTLG())
    add("AlignedMTL", "AlignedMTL", lambda m, dt: T.AlignedMTL())
    add("AlignedMTL[inc]", "AlignedMTL", lambda m, dt: T.AlignedMTL(pref_vector=_inc(m, dt)))
    add("ConFIG", "ConFIG", lambda m, dt: T.ConFIG())
    add("ConFIG[inc]", "ConFIG", lambda m, dt: T.ConFIG(pref_vector=_inc(m, dt)))
    add("Constant", "Constant", lambda m, dt: T.Constant(_vec(CW, m, dt)))
    add("GradDrop", "GradDrop", lambda m, dt: T.GradDrop())
    add("GradDrop[leak]", "GradDrop", lambda m, dt: T.GradDrop(leak=_vec(LEAK, m, dt)))
    add("Krum(0,1)", "Krum", lambda m, dt: T.Krum(0, 1), min_rows=3)
    add("Krum(0,2)", "Krum", lambda m, dt: T.Krum(0, 2), min_rows=3)
    add("Krum(1,2)", "Krum", lambda m, dt: T.Krum(1, 2), min_rows=4)
    add("Mean", "Mean", lambda m, dt: T.Mean())
    add("Random", "Random", lambda m, dt: T.Random())
    add("Sum", "Sum", lambda m, dt: T.Sum())
    add("TrimmedMean(0)", "TrimmedMean", lambda m, dt: T.TrimmedMean(0))
    add("TrimmedMean(1)", "TrimmedMean", lambda m, dt: T.TrimmedMean(1), min_rows=3)
    add("TrimmedMean(2)", "TrimmedMean", lambda m, dt: T.TrimmedMean(2), min_rows=5)
    add("CAGrad(0.5)", "CAGrad", lambda m, dt: T.CAGrad(0.5), norm_eps=1e-4, group="cagrad")
    add("CAGrad(0.5)[ne=1e-13]", "CAGrad", lambda m, dt: T.CAGrad(0.5, norm_eps=1e-13), norm_eps=1e-13, dtypes=("float64",), group="cagrad")
    add("CAGrad(0)", "CAGrad", lambda m, dt: T.CAGrad(0.0), norm_eps=1e-4, group="cagrad-extra")
    add("CAGrad(2)", "CAGrad", lambda m, dt: T.CAGrad(2.0), norm_eps=1e-4, group="cagrad-extra")
    return B


_B = None
# static copy of the configuration keys: gen_cases runs in the parent before the worker initialisation and must not import torchjd
CONFIG_KEYS = ["UPGrad", "UPGrad[inc]", "UPGrad[ne=1e-13]", "DualProj", "DualProj[tiny]", "DualProj[ne=1e-13]", "MGDA", "PCGrad", "IMTLG",
               "AlignedMTL", "AlignedMTL[inc]", "ConFIG", "ConFIG[inc]", "Constant", "GradDrop", "GradDrop[leak]", "Krum(0,1)", "Krum(0,2)",
               "Krum(1,2)", "Mean", "Random", "Sum", "TrimmedMean(0)", "TrimmedMean(1)", "TrimmedMean(2)", "CAGrad(0.5)",
               "CAGrad(0.5)[ne=1e-13]", "CAGrad(0)", "CAGrad(2)"]


def builders():
    global _B
    if _B is None:
        _B = _builders()
        if list(_B) != CONFIG_KEYS:
            raise HarnessError("CONFIG_KEYS out of date")
    return _B


def scripts(name, m, n):
    """Fixed alphabet of replayed draw scripts (the same script is used on both sides of every comparison)."""
    if name == "PCGrad":
        asc, desc = list(range(m)), list(range(m))[::-1]
        return [[("randperm", asc)] * m] if m == 1 else [[("randperm", asc)] * m, [("randperm", desc)] * m]
    if name == "GradDrop":
        return [[("rand", [0.3] * n)], [("rand", [(0.7, 0.3)[j % 2] for j in range(n)])]]
    if name == "Random":
        return [[("randn", [(-2.0, 0.0, 3.0, 1.0, -1.0)[i % 5] for i in range(m)])]]
    return [[]]


class ReplayDiverged(HarnessError):
    pass


def _call(agg, name, Jt, script):
    """One execution of the real aggregator with replayed draws. Returns (tensor | None, exception | None)."""
    from mc.seams import DrawReplayer

    rp = DrawReplayer(script)
    try:
        with rp:
            x = agg(Jt)
    except DrawReplayer.Mismatch as e:
        raise ReplayDiverged(f"draw replay diverged for {name}: {e}")
    except Exception as e:  # library exception on valid input = violation (decided by the caller)
        return None, e
    if not rp.exhausted:
        raise ReplayDiverged(f"draw script not exhausted for {name}: {rp.pos}/{len(rp.script)}")
    return x, None


# ----------------------------------------------------------------------------- cases
def _blocks(n, size):
    return [(lo, min(n, lo + size)) for lo in range(0, n, size)]


DENSE_SHAPES = [(1, 1), (1, 3), (3, 1), (4, 2), (5, 3)]  # from D(seed), as DESIGN C11 asks
GENERIC_SHAPES = [(2, 3), (3, 3), (4, 5)]  # from G(seed) (mc/generic.py): D(seed) is rank 2 up to rounding when m, n >= 3
HIST_KEYS_ANY = ["UPGrad", "UPGrad[ne=1e-13]", "DualProj", "MGDA", "PCGrad", "IMTLG", "AlignedMTL", "ConFIG", "GradDrop", "Mean", "Random",
                 "Sum", "TrimmedMean(0)", "CAGrad(0.5)"]
HIST_KEYS_M3 = ["UPGrad[inc]", "DualProj[tiny]", "AlignedMTL[inc]", "ConFIG[inc]", "Constant", "GradDrop[leak]", "Krum(0,1)", "Krum(0,2)",
                "TrimmedMean(1)", "UPGrad", "MGDA", "PCGrad", "IMTLG", "AlignedMTL", "CAGrad(0.5)", "Mean", "Sum", "Random", "GradDrop", "ConFIG",
                "DualProj"]
SEEDED = ["PCGrad", "GradDrop", "GradDrop[leak]", "Random"]


def gen_cases(tier, seed):
    cases = []
    for key in HIST_KEYS_ANY:
        cases.append(dict(kind="hist", key=key, alph="any", seed=seed))
    for key in HIST_KEYS_M3:
        cases.append(dict(kind="hist", key=key, alph="m3", seed=seed))
    for key in CONFIG_KEYS:
        cases.append(dict(kind="reject", key=key, seed=seed))
        cases.append(dict(kind="layout", key=key, seed=seed))
    for key in SEEDED:
        for src in ("ternary32", "ternary23", "dense43", "dense53"):
            cases.append(dict(kind="seed", key=key, src=src, seed=seed))
    small = [(1, 1), (1, 2), (2, 1), (2, 2), (1, 3), (3, 1)]
    shapes = list(A.SHAPES_LE3) if tier == "thorough" else small + [(2, 3), (3, 2)]
    for (m, n) in shapes:
        for lo, hi in _blocks(A.ternary_count(m, n), BLOCK):
            cases.append(dict(kind="scale", src="ternary", m=m, n=n, lo=lo, hi=hi, group="fast", seed=seed))
        if tier == "thorough" or (m, n) in small:
            for lo, hi in _blocks(A.ternary_count(m, n), 3):
                cases.append(dict(kind="scale", src="ternary", m=m, n=n, lo=lo, hi=hi, group="cagrad", seed=seed))
        else:
            for lo, hi in _blocks(len(_canon(m, n)), 3):
                cases.append(dict(kind="scale", src="canonical", m=m, n=n, lo=lo, hi=hi, group="cagrad", seed=seed))
    for (m, n) in small if tier == "thorough" else []:  # further CAGrad parameters on the small shapes
        for lo, hi in _blocks(A.ternary_count(m, n), 6):
            cases.append(dict(kind="scale", src="ternary", m=m, n=n, lo=lo, hi=hi, group="cagrad-extra", seed=seed))
    for src, shapes_ in (("dense", DENSE_SHAPES), ("generic", GENERIC_SHAPES)):
        for (m, n) in shapes_:
            for lo, hi in _blocks(8, 4):
                cases.append(dict(kind="scale", src=src, m=m, n=n, lo=lo, hi=hi, group="fast", seed=seed))
                cases.append(dict(kind="scale", src=src, m=m, n=n, lo=lo, hi=hi, group="cagrad", seed=seed))
    return cases


_CANON = {}


def _canon(m, n):
    if (m, n) not in _CANON:
        _CANON[(m, n)] = A.canonical_ternary(m, n)
    return _CANON[(m, n)]


def _matrices(case):
    if case["src"] == "ternary":
        return [A.ternary_index(case["m"], case["n"], i) for i in range(case["lo"], case["hi"])]
    if case["src"] == "canonical":
        return _canon(case["m"], case["n"])[case["lo"] : case["hi"]]
    if case["src"] == "generic":
        return generic(case["seed"], case["m"], case["n"], 8)[case["lo"] : case["hi"]]
    return A.dense(case["seed"], case["m"], case["n"], 8)[case["lo"] : case["hi"]]


# ----------------------------------------------------------------------------- reference facts about one matrix
class Facts:
    """Reference quantities (float64 NumPy) of the matrix really seen by the aggregator at scale 1 (after the cast
    to its dtype); they only feed predicates and tolerances."""

    def __init__(self, Jd, exact_int):
        self.Jd = Jd
        self.m, self.n = Jd.shape
        self.exact_int = exact_int  # member of the {-1,0,1} alphabet: rank deficiency is exact
        self.s = A.sigma_max(Jd)
        self._c = {}

    def get(self, k, fn):
        if k not in self._c:
            self._c[k] = fn()
        return self._c[k]

    @property
    def Jn(self):
        return self.get("Jn", lambda: self.Jd / self.s)

    def rank_class(self, M, thr, need_row_rank):
        """'full' (all normalised singular values >= thr; full ROW rank if the Gramian is what gets decomposed), 'exact'
        (rank deficient member of the integer alphabet whose non-null singular values are >= thr), or 'ambiguous'."""
        sv = np.linalg.svd(M, compute_uv=False)
        if sv.size == 0 or sv[0] == 0:
            return "exact" if self.exact_int else "ambiguous"
        sv = sv / sv[0]
        if (sv >= thr).all() and (M.shape[0] <= M.shape[1] or not need_row_rank):
            return "full"
        if self.exact_int and all((x >= thr) or (x <= 1e-12) for x in sv):
            return "exact"
        return "ambiguous"

    def rows_rank_class(self, dtype):
        # operand whose rank matters: J itself (its Gramian is what IMTLG / AlignedMTL decompose: threshold on sigma^2)
        # sigma >= 3e-2 <=> eigenvalues of the Gramian >= 1e-3 lambda_max: three orders above AlignedMTL's cut (m * float32 eps, in
        # both dtypes) and above the float32 rounding noise of pinv(G)
        return self.get("rrc", lambda: self.rank_class(self.Jn, 3e-2, True))

    def units_rank_class(self, dtype):
        def f():
            nr = np.linalg.norm(self.Jd, axis=1)
            U = np.where(nr[:, None] > 0, self.Jd / np.where(nr > 0, nr, 1.0)[:, None], 0.0)
            return self.rank_class(U, 1e-2 if dtype == "float32" else 1e-3, False)

        return self.get(("urc", dtype), f)

    @property
    def imtlg_q(self):
        def f():
            G = self.Jn @ self.Jn.T
            d = np.linalg.norm(self.Jn, axis=1)
            v = np.linalg.pinv(G, rcond=1e-9, hermitian=True) @ d
            return abs(float(v.sum())) * float(d.max())

        return self.get("q", f)

    def config_direction(self, w):
        """|pinv(units) w| / |w|: ConFIG normalises this vector, so its map is discontinuous where it vanishes."""

        def f():
            nr = np.linalg.norm(self.Jd, axis=1)
            U = np.where(nr[:, None] > 0, self.Jd / np.where(nr > 0, nr, 1.0)[:, None], 0.0)
            bd = np.linalg.pinv(U, rcond=1e-9) @ w
            return float(np.linalg.norm(bd) / np.linalg.norm(w))

        return self.get(("cbd", w.tobytes()), f)

    @property
    def min_norm(self):
        return self.get("mn", lambda: math.sqrt(max(0.0, R.min_norm_point(self.Jn)[2])))

    def mgda_candidates(self, thr, epsilon=1e-3, max_iters=100, cap=16):
        """Outputs (scale 1) of every run of MGDA's Frank-Wolfe loop that differs only in how argmin ties (and a borderline
        early stop) are broken; ties = entries within ``thr`` of the minimum on the normalised Gramian. Rounding breaks exact
        ties differently at different scales, so each of them is a correct answer. Enumerated with the E-choice explorer;
        None when more than ``cap`` runs would be needed (the case is then dropped)."""
        from mc.explorer import explore

        def g():
            G = self.Jn @ self.Jn.T
            m = self.m

            def run(ch):
                alpha = np.ones(m) / m
                for _ in range(max_iters):
                    ga = G @ alpha
                    tied = [i for i in range(m) if ga[i] <= ga.min() + thr]
                    t = tied[ch.choose(len(tied), "argmin")] if len(tied) > 1 else tied[0]
                    a, b, c = float(alpha @ G[:, t]), float(alpha @ ga), float(G[t, t])
                    if c <= a:
                        gamma = 1.0
                    elif b <= a:
                        gamma = 0.0
                    else:
                        gamma = (b - a) / (b + c - 2 * a)
                    e = np.zeros(m)
                    e[t] = 1.0
                    alpha = (1 - gamma) * alpha + gamma * e
                    stop = gamma < epsilon
                    if abs(gamma - epsilon) <= thr:
                        stop = bool(ch.choose(2, "stop"))
                    if stop:
                        break
                return alpha

            outs = []
            for k, (_, alpha) in enumerate(explore(run, max_executions=cap + 1)):
                if k >= cap:
                    return None
                outs.append(alpha @ self.Jd)
            return outs

        return self.get(("mgda", thr), g)

    def krum_admissible(self, f, k, margin):
        """All k-subsets that are admissible selections when scores closer than ``margin`` (relative to s) count as tied."""

        def g():
            sc = np.array(R.krum_scores(self.Jn, f))
            order = np.sort(sc)
            kth = order[k - 1]
            must = [i for i in range(self.m) if sc[i] < kth - margin]
            may = [i for i in range(self.m) if abs(sc[i] - kth) <= margin]
            out = []
            for extra in itertools.combinations(may, k - len(must)):
                out.append(sorted(must + list(extra)))
            return out

        return self.get(("krum", f, k, margin), g)


# ----------------------------------------------------------------------------- (a) (c) (f)
def _fmt(t):
    return f"{t:g}"


def _scale_one(cfg, J, J0, F, dtype, res):
    """All rungs of one (configuration, matrix, dtype): totality, purity, homogeneity."""
    import torch

    name, key = cfg["name"], cfg["key"]
    dt = getattr(torch, dtype)
    m, n = J.shape
    s = F.s
    tol0 = TOL[dtype]
    for si, script in enumerate(scripts(name, m, n)):
        agg = cfg["build"](m, dt)
        out = {}
        for t in LADDER[dtype]:
            Jt = J0 * t
            if not bool(torch.isfinite(Jt).all()):
                raise HarnessError(f"scaled input not finite: {dtype} t={t}")
            before = Jt.clone()
            ver = Jt._version
            x, exc = _call(agg, name, Jt, script)
            res["execs"] += 1
            desc = f"{key} {dtype} t={_fmt(t)} J={J.tolist()}"
            if exc is not None:
                res["viol"].append(dict(sig=f"totality:{name}:{dtype}:scale={_fmt(t)}:{type(exc).__name__}", msg=f"{desc}: {exc!r}"[:400]))
                continue
            # (c) purity
            if Jt._version != ver:
                res["viol"].append(dict(sig=f"purity:{name}:{dtype}:version-bumped", msg=desc))
            if Jt.numpy().tobytes() != before.numpy().tobytes():
                res["viol"].append(dict(sig=f"purity:{name}:{dtype}:input-modified", msg=f"{desc}: now {Jt.tolist()}"[:400]))
            res["counters"]["purity_checked"] += 1
            # (a) totality
            if not isinstance(x, torch.Tensor) or tuple(x.shape) != (n,):
                res["viol"].append(dict(sig=f"totality:{name}:{dtype}:scale={_fmt(t)}:shape", msg=f"{desc}: shape {tuple(getattr(x, 'shape', ()))}"))
                continue
            if x.dtype != dt:
                res["viol"].append(dict(sig=f"totality:{name}:{dtype}:scale={_fmt(t)}:dtype", msg=f"{desc}: result dtype {x.dtype}"))
                continue
            if not bool(torch.isfinite(x).all()):
                res["viol"].append(dict(sig=f"totality:{name}:{dtype}:scale={_fmt(t)}:nonfinite", msg=f"{desc}: x={x.tolist()}"[:400]))
                continue
            res["counters"]["total_ok"] += 1
            out[t] = x.double().numpy()
        # (f) homogeneity against the rung t = 1
        x0 = out.get(1.0)
        if x0 is None:
            continue
        if s == 0.0:
            res["counters"]["zero_matrix"] += 1
            if np.any(x0):
                res["viol"].append(dict(sig=f"homogeneity:{name}:{dtype}:zero-matrix", msg=f"{key} {dtype}: A(0)={x0.tolist()}"))
            continue
        stable = True  # False for inputs whose output is legitimately chaotic: kept out of the outcome digests
        for t in LADDER[dtype]:
            if t == 1.0 or t not in out:
                continue
            xt = out[t] / t
            err = float(np.abs(xt - x0).max())
            tol = tol0 * s
            okey = f"homog:{name}:{dtype}"
            desc = f"{key} {dtype} t={_fmt(t)} script={si} J={J.tolist()} s={s:.3g}: A(J)={x0.tolist()} A(tJ)/t={xt.tolist()}"
            # --- predicates narrowing the alphabet (carve-outs of the statement, DESIGN §2.4/§5)
            if cfg["norm_eps"] is not None and min(s, t * s) < 1.01 * cfg["norm_eps"]:
                res["dropped"] += 1
                res["counters"]["drop_below_norm_eps"] += 1
                continue
            if name in ("UPGrad", "DualProj") and dtype == "float32":
                tol = 1e-3 * s  # conditioning of the regularised QP: eps(float32) / reg_eps = 1.2e-7 / 1e-4
            if name == "CAGrad":
                if F.min_norm < 1e-2:
                    stable = False
                    res["dropped"] += 1
                    res["counters"]["drop_cagrad_stationary"] += 1
                    continue
                tol = 1e-3 * s  # Clarabel stops at 1e-8 on the objective; the minimiser is only sqrt(1e-8) = 1e-4 accurate (x 10)
            if name in ("IMTLG", "AlignedMTL"):
                if F.rows_rank_class(dtype) == "ambiguous":
                    stable = False
                    res["dropped"] += 1
                    res["counters"]["drop_ambiguous_rank"] += 1
                    continue
            if name == "ConFIG":
                if F.units_rank_class(dtype) == "ambiguous":
                    stable = False
                    res["dropped"] += 1
                    res["counters"]["drop_ambiguous_rank"] += 1
                    continue
                w = np.ones(m) if "[inc]" not in key else np.arange(1, m + 1) / (m * (m + 1) / 2)
                qc = F.config_direction(w)
                if qc < (1e-3 if dtype == "float32" else 1e-6):
                    stable = False
                    res["dropped"] += 1
                    res["counters"]["drop_config_zero_direction"] += 1
                    continue
                tol = tol / min(1.0, qc)
            if name == "IMTLG":
                q = F.imtlg_q
                if q < (1e-3 if dtype == "float32" else 1e-6):
                    stable = False
                    if q <= 1e-13 and ASSERT_IMTLG_STATIONARY64 and (dtype == "float64" or bool(np.all(J == np.round(J)))):
                        # exactly stationary (in float32 only for integer matrices, whose stationarity survives the rounding): not
                        # ill-posed - the library detects the case and answers 0; its guard must decide alike at every scale, and
                        # the plain identity A(tJ)/t = A(J) holds with the ordinary tolerance
                        z0, zt = not np.any(x0), not np.any(out[t])
                        res["counters"]["imtlg_stationary_compared"] += 1
                        if z0 != zt or not (err <= tol):
                            res["viol"].append(dict(sig=f"homogeneity:IMTLG:guard-stationary:{dtype}:scale={_fmt(t)}", msg=desc[:500]))
                    else:
                        res["dropped"] += 1
                        res["counters"]["drop_imtlg_ill_posed"] += 1
                    continue
                tol = tol / min(1.0, q)
                if np.any(x0) and not np.any(out[t]):
                    res["counters"]["imtlg_zero_output"] += 1
                    res["viol"].append(dict(sig=f"homogeneity:IMTLG:guard-zero-output:{dtype}:scale={_fmt(t)}", msg=desc[:500]))
                    continue
            if name == "MGDA":
                cands = F.mgda_candidates(1e-4 if dtype == "float32" else 1e-9)
                if cands is None:
                    stable = False
                    res["dropped"] += 1
                    res["counters"]["drop_mgda_too_many_tie_branches"] += 1
                    continue
                if len(cands) > 1:
                    # argmin ties in the Frank-Wolfe loop: every tie-breaking is a correct answer, on both sides
                    stable = False
                    err = max(min(float(np.abs(v - c).max()) for c in cands) for v in (xt, x0))
                    res["counters"]["mgda_tied"] += 1
            if name == "Krum":
                agg_w = agg.weighting
                adm = F.krum_admissible(agg_w.n_byzantine, agg_w.n_selected, 1e-3 if dtype == "float32" else 1e-6)
                if len(adm) != 1:
                    # score ties: the mean of any admissible selection is a correct answer, on both sides
                    cands = [F.Jd[S].mean(axis=0) for S in adm]
                    err = max(min(float(np.abs(v - c).max()) for c in cands) for v in (xt, x0))
                    res["counters"]["krum_tied"] += 1
            # --- the assertion
            res["counters"]["homog_compared"] += 1
            if np.any(x0):
                res["nontrivial"] += 1
            r = err / tol
            res["maxima"][okey] = max(res["maxima"].get(okey, 0.0), r)
            if not (err <= tol):  # NaN-safe
                res["viol"].append(dict(sig=f"homogeneity:{name}:{dtype}:scale={_fmt(t)}", msg=f"{desc} err/tol={r:.3g}"[:600]))
        if stable:
            res["outcomes"].add(digest([key, dtype, si, np.round(x0 / s, 5).tolist()]))


def _run_scale(case, res):
    mats = _matrices(case)
    exact_int = case["src"] in ("ternary", "canonical")
    cfgs = [c for c in builders().values() if c["group"] == case["group"]]
    import torch

    for J in mats:
        m = J.shape[0]
        for dtype in DTYPES:
            J0 = torch.tensor(J, dtype=getattr(torch, dtype))
            F = Facts(J0.double().numpy(), exact_int)
            for cfg in cfgs:
                if m >= cfg["min_rows"] and dtype in cfg["dtypes"]:
                    _scale_one(cfg, J, J0, F, dtype, res)


# ----------------------------------------------------------------------------- (b) rejection
REJECTING = {"UPGrad", "DualProj", "MGDA", "PCGrad", "CAGrad", "IMTLG", "AlignedMTL", "Constant", "Krum", "Mean", "Random", "Sum",
             "GradDrop", "TrimmedMean"}  # the weighted aggregators, GradDrop and TrimmedMean; ConFIG is observed only


def _row_requirement(cfg, m_built):
    """('exact', m) when the configuration fixes the row count (weights / pref vector / leak of length m), ('min', r) when it
    documents a minimum r (Krum: n_byzantine + 3 and n_selected; TrimmedMean: 2 trim_number + 1), else (None, None)."""
    key, name = cfg["key"], cfg["name"]
    if name == "Constant" or "[inc]" in key or "[tiny]" in key or "[leak]" in key:
        return "exact", m_built
    if name in ("Krum", "TrimmedMean"):
        return "min", cfg["min_rows"]
    return None, None


def _run_reject(case, res):
    import torch

    cfg = builders()[case["key"]]
    name, key = cfg["name"], cfg["key"]
    asserted = name in REJECTING
    mb = max(2, cfg["min_rows"])  # rows of the well-formed base matrix
    for dtype in cfg["dtypes"]:
        dt = getattr(torch, dtype)
        base = torch.arange(1, 2 * mb + 1, dtype=dt).reshape(mb, 2)
        faults = [("0-d", torch.tensor(1.5, dtype=dt)), ("1-d", torch.arange(1, mb + 1, dtype=dt)), ("3-d", torch.ones(mb, 2, 2, dtype=dt)),
                  ("4-d", torch.ones(mb, 1, 2, 1, dtype=dt))]
        for bad, bname in ((float("nan"), "nan"), (float("inf"), "+inf"), (float("-inf"), "-inf")):
            for i in range(mb):
                for j in range(2):
                    Jb = base.clone()
                    Jb[i, j] = bad
                    faults.append((f"{bname}@{i},{j}", Jb))
        kind, req = _row_requirement(cfg, mb)
        if kind == "exact":
            for m in range(0, req + 2):
                if m != req:
                    faults.append((f"rows={m}!={req}", torch.ones(m, 2, dtype=dt)))
        elif kind == "min":
            for m in range(0, req):
                faults.append((f"rows={m}<{req}", torch.ones(m, 2, dtype=dt)))
        # the well-formed base and the boundary row counts must be accepted (otherwise the rejections prove nothing)
        accepted = [("base", base)]
        if kind == "min":
            accepted += [(f"rows={req}", torch.ones(req, 2, dtype=dt) * 2), (f"rows={req + 1}", torch.ones(req + 1, 2, dtype=dt) * 2)]
        for label, Jg in accepted:
            agg = cfg["build"](mb, dt)
            x, exc = _call(agg, name, Jg, scripts(name, Jg.shape[0], 2)[0])
            res["execs"] += 1
            if exc is not None or not bool(torch.isfinite(x).all()):
                res["viol"].append(dict(sig=f"rejection:{name}:{label}:valid-input-not-accepted", msg=f"{key} {dtype} {Jg.tolist()}: {exc!r}"))
        for label, Jb in faults:
            agg = cfg["build"](mb, dt)
            from mc.seams import DrawReplayer

            m_ = Jb.shape[0] if Jb.dim() >= 1 else 1
            n_ = Jb.shape[1] if Jb.dim() >= 2 else 1
            outcome = None
            sc = scripts(name, m_, n_)[0]
            try:
                with DrawReplayer(sc):
                    x = agg(Jb)
                outcome = "returned " + ("finite" if bool(torch.isfinite(x).all()) else "non-finite") + f" {tuple(x.shape)}"
            except DrawReplayer.Mismatch:
                outcome = "not rejected before drawing"
            except ValueError:
                outcome = "ValueError"
            except Exception as e:
                outcome = type(e).__name__
            res["execs"] += 1
            res["outcomes"].add(digest([key, dtype, label.split("@")[0], outcome]))
            if asserted:
                res["nontrivial"] += 1
                res["counters"]["rejections_asserted"] += 1
                if outcome != "ValueError":
                    kind_ = label.split("@")[0].split("=")[0]
                    res["viol"].append(dict(sig=f"rejection:{name}:{kind_}:{outcome.split(' (')[0]}", msg=f"{key} {dtype} input {label}: {outcome}; expected ValueError"))
            else:
                res["counters"]["rejections_observed_only:" + outcome.split(" (")[0]] += 1


# ----------------------------------------------------------------------------- (d) statelessness
def _hist_alphabet(alph):
    if alph == "any":
        return [np.array([[-4.0, 1.0, 1.0], [6.0, 1.0, 1.0]]), np.array([[1.0, -2.0], [-1.0, 0.5], [0.25, 3.0]]),
                np.array([[2.0, -1.0, 0.0], [-1.0, 2.0, -1.0], [0.0, -3.0, 1.0]]), np.array([[0.5, -7.0]])]
    return [np.array([[1.0, -2.0], [-1.0, 0.5], [0.25, 3.0]]), np.array([[2.0, -1.0, 0.0], [-1.0, 2.0, -1.0], [0.0, -3.0, 1.0]]),
            np.array([[-3.0, 1.0], [2.0, 2.0], [1.0, -4.0]]), np.array([[1.0], [-2.0], [0.5]])]


def _hist_script(name, m, n, variant):
    sc = scripts(name, m, n)
    return sc[variant % len(sc)]


def _run_hist(case, res):
    import torch

    cfg = builders()[case["key"]]
    name, key = cfg["name"], cfg["key"]
    mats = _hist_alphabet(case["alph"])
    for dtype in cfg["dtypes"]:
        dt = getattr(torch, dtype)
        Ts = [torch.tensor(M, dtype=dt) for M in mats]
        if case["alph"] == "any":
            # parameter-free configurations: one member of the alphabet has the OTHER dtype (a dtype-stale cache is state too)
            Ts[2] = torch.tensor(mats[2], dtype=torch.float32 if dtype == "float64" else torch.float64)  # shares m = 3 with member 1
        mfix = 3
        fresh = []
        for a, Jt in enumerate(Ts):
            agg = cfg["build"](mfix, dt)
            x, exc = _call(agg, name, Jt.clone(), _hist_script(name, Jt.shape[0], Jt.shape[1], 0))
            res["execs"] += 1
            if exc is not None:
                res["viol"].append(dict(sig=f"totality:{name}:{dtype}:hist-alphabet:{type(exc).__name__}", msg=f"{key} {Jt.tolist()}: {exc!r}"))
                fresh.append(None)
            else:
                fresh.append((x.dtype, tuple(x.shape), x.numpy().tobytes()))
        if all(f is not None for f in fresh) and len(set(fresh)) < 2:
            raise HarnessError(f"history alphabet does not separate outputs for {key}")
        for h in histories(range(len(Ts)), 3):
            if fresh[h[-1]] is None:
                continue
            agg = cfg["build"](mfix, dt)  # configurations with per-m parameters are only used with the m3 alphabet
            bad = None
            for pos, a in enumerate(h):
                last = pos == len(h) - 1
                Jt = Ts[a].clone()
                # earlier calls replay other draws than the last one, which replays the fresh instance's draws
                try:
                    x, exc = _call(agg, name, Jt, _hist_script(name, Jt.shape[0], Jt.shape[1], 0 if last else 1 + pos))
                except ReplayDiverged as e:
                    # a fresh instance consumed exactly the scripted draws on this matrix: asking for other draws now is history dependence
                    x, exc = None, e
                res["execs"] += 1
                if exc is not None:
                    bad = f"call {pos} on matrix {a} raised {exc!r}"
                    break
            if bad is None:
                got = (x.dtype, tuple(x.shape), x.numpy().tobytes())
                if got != fresh[h[-1]]:
                    bad = f"result {x.tolist()} differs from a fresh instance's"
            res["counters"]["histories"] += 1
            if len(h) > 1 and any(a != h[-1] for a in h[:-1]):
                res["nontrivial"] += 1
            res["outcomes"].add(digest([key, dtype, case["alph"], h[-1], fresh[h[-1]][2].hex()]))
            if bad is not None:
                res["viol"].append(dict(sig=f"stateful:{name}:{case['alph']}", msg=f"{key} {dtype} history {h}: {bad}"[:500]))


# ----------------------------------------------------------------------------- (e) seeds
def _run_seed(case, res):
    import torch

    cfg = builders()[case["key"]]
    name, key = cfg["name"], cfg["key"]
    src = case["src"]
    if src.startswith("ternary"):
        m, n = int(src[-2]), int(src[-1])
        mats = [M for M in _canon(m, n) if np.any(M) and (M @ M.T < 0).any()][:24]
    else:
        m, n = int(src[-2]), int(src[-1])
        mats = A.dense(case["seed"], m, n, 8)
    for dtype in DTYPES:
        dt = getattr(torch, dtype)
        for J in mats:
            Jt = torch.tensor(J, dtype=dt)
            agg = cfg["build"](J.shape[0], dt)
            seen = set()
            for z in range(8):
                outs = []
                for rep in range(2):
                    torch.manual_seed(z)
                    try:
                        x = agg(Jt)
                        outs.append(x.numpy().tobytes())
                    except Exception as e:
                        outs.append(repr(e))
                    res["execs"] += 1
                if outs[0] != outs[1]:
                    res["viol"].append(dict(sig=f"seed:{name}", msg=f"{key} {dtype} J={J.tolist()} manual_seed({z}) twice gives different results"))
                seen.add(outs[0])
                res["outcomes"].add(digest([key, dtype, z, outs[0].hex() if isinstance(outs[0], bytes) else outs[0]]))
            res["counters"]["seed_pairs"] += 8
            if len(seen) > 1:
                res["nontrivial"] += 1


# ----------------------------------------------------------------------------- entry point
class _Counter(dict):
    def __missing__(self, k):
        return 0


def _run_layout(case, res):
    """Purity / statelessness with respect to the MEMORY of the input (added after seeded changes keyed caches on the identity of the matrix
    tensor and used views that only work for contiguous data): for every configuration, (1) a column-major (dense, non-contiguous) matrix
    gives the same result as the contiguous one; (2) one instance fed a pre-allocated buffer that is re-filled in place with other
    matrices gives, on every step, bit for bit what a new instance gives on a new tensor; (3) the buffer itself is never modified."""
    import torch

    cfg = builders()[case["key"]]
    name, key = cfg["name"], cfg["key"]
    m = max(3, cfg["min_rows"])
    n = 4
    mats = [np.array([[math.sin(1.7 * i + 0.9 * j + 0.6 * k) * (1.0 + 0.25 * ((i + j + k) % 3)) for j in range(n)] for i in range(m)]) for k in range(4)]
    for dtype in cfg["dtypes"]:
        dt = getattr(torch, dtype)
        tol = (1e-3 if name == "CAGrad" else (1e-9 if dtype == "float64" else 2e-4))
        agg = cfg["build"](m, dt)
        buf = torch.empty((m, n), dtype=dt)
        for k, J in enumerate(mats):
            sc = scripts(name, m, n)[0]
            Jt = torch.tensor(J, dtype=dt)
            s = A.sigma_max(Jt.double().numpy())
            fresh, e0 = _call(cfg["build"](m, dt), name, Jt, sc)
            Jf = Jt.t().contiguous().t()  # same values, column-major
            xf, e1 = _call(cfg["build"](m, dt), name, Jf, sc)
            buf.copy_(Jt)
            before = buf.numpy().tobytes()
            xb, e2 = _call(agg, name, buf, sc)
            res["execs"] += 3
            if e0 is not None or e1 is not None or e2 is not None:
                e = e0 or e1 or e2
                res["viol"].append(dict(sig=f"totality:{name}:layout:{type(e).__name__}", msg=f"{key} {dtype} layout/buffer family step {k}: {e!r}"[:300]))
                break
            if buf.numpy().tobytes() != before:
                res["viol"].append(dict(sig=f"purity:{name}:buffer-modified", msg=f"{key} {dtype}: the input buffer was modified (step {k})"))
                break
            a, b, c = fresh.double().numpy(), xf.double().numpy(), xb.double().numpy()
            err = float(np.abs(a - b).max())
            okey = f"layout:{name}:{dtype}"
            res["maxima"][okey] = max(res["maxima"].get(okey, 0.0), err / (tol * s))
            if not (err <= tol * s):
                res["viol"].append(dict(sig=f"layout:{name}:{dtype}", msg=f"{key} {dtype} J={J.tolist()}: column-major input gives {b.tolist()}, contiguous {a.tolist()}"))
                break
            if a.tobytes() != c.tobytes():
                res["viol"].append(dict(sig=f"stateful:{name}:reused-buffer", msg=f"{key} {dtype}: step {k} on a re-filled buffer gives {c.tolist()}, a new instance on a new tensor {a.tolist()}"))
                break
            res["counters"]["layout_comparisons"] += 2
            res["nontrivial"] += 1
            res["outcomes"].add(digest([key, dtype, k, np.round(a / max(s, 1e-300), 6).tolist()]))


def run_case(case):
    res = dict(viol=[], execs=0, outcomes=set(), nontrivial=0, dropped=0, maxima={}, counters=_Counter())
    kind = case["kind"]
    if kind == "scale":
        _run_scale(case, res)
    elif kind == "reject":
        _run_reject(case, res)
    elif kind == "hist":
        _run_hist(case, res)
    elif kind == "seed":
        _run_seed(case, res)
    elif kind == "layout":
        _run_layout(case, res)
    else:
        raise HarnessError(f"unknown case kind {kind}")
    res["outcomes"] = sorted(res["outcomes"])
    res["counters"] = dict(res["counters"])
    res["margin"] = max(res["maxima"].values(), default=0.0)
    for v in res["viol"]:
        v.setdefault("cls", v["sig"])
    return res


def _harness_error_cls():
    # the runner is executed as __main__ (python -m mc.runner): its HarnessError is not mc.runner.HarnessError
    import sys

    return getattr(sys.modules.get("__main__"), "HarnessError", HarnessError)


def finalize(tier, seed, agg, cases, results):
    c = agg["counters"]
    HarnessError = _harness_error_cls()
    kinds = {cs["kind"] for cs in cases}  # (a partial case list, --limit, only has to exercise its own parts)
    need = dict(scale=("homog_compared", "purity_checked", "total_ok"), hist=("histories",), reject=("rejections_asserted",), seed=("seed_pairs",), layout=("layout_comparisons",))
    for k in [k for kind in sorted(kinds) for k in need[kind]]:
        if c.get(k, 0) == 0:
            raise HarnessError(f"part of C11 was not exercised: counter {k} is 0")
    return dict(notes=dict(parts={k: c.get(k, 0) for k in sorted(c)}))
