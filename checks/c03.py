"""C03 — UPGrad / DualProj are the exact regularised dual-cone projection (DESIGN §3 C03).

E-enum over a finite matrix alphabet x row scalings x preference vectors x (norm_eps, reg_eps) pairs x
global scales straddling norm_eps x dtypes; oracle = active-set enumeration QP reference (2^m).
"""
from __future__ import annotations

import itertools

import numpy as np

from mc import alphabets as A
from mc import refmodels as R
from mc.runner import digest

SPEC = dict(
    property_id="C03",
    level="exploration",
    rule=(
        "case = block of matrices of the alphabet (all {-1,0,1} matrices of a shape / Near / D(seed)) with one "
        "configuration family; evaluation = one (matrix, row scaling, pref vector, norm_eps, reg_eps, global scale, dtype, "
        "aggregator) call of the real aggregator compared with the active-set reference; non-trivial = distinct "
        "evaluations on a matrix with s >= norm_eps that has at least one negative Gramian entry (a genuine projection is needed)"
    ),
    bound=dict(
        quick="all ternary matrices of shapes <= 2x3 and 3x1,3x2; Near; D(seed) 3x4; eps pairs x straddling scales x P(m); row scalings L3^m on 2xn; preference vectors P(m), also scaled by 1e-6/1e-9/1e-12 and in "
              "float32/int64; extreme global scales 1e160/1e20; instance and buffer re-use histories",
        thorough="all ternary matrices up to 3x3, Near, D(seed) up to 5x4, row scalings L3^m on all shapes with m<=3",
    ),
    assumptions=[
        "matrices off the finite alphabet are not covered; m <= 5 (reference enumerates 2^m active sets)",
        "largest singular value computed by float64 NumPy SVD is the reference scale",
    ],
)

EPS_PAIRS = [(1e-4, 1e-4), (1e-2, 1e-6), (1e-6, 1e-2), (1e-10, 1e-10)]
BLOCK = 12
DETERMINISM_SLICE = 8


def _blocks(n, size):
    return [(lo, min(n, lo + size)) for lo in range(0, n, size)]


def gen_cases(tier, seed):
    cases = []
    shapes_q = [(1, 1), (1, 2), (1, 3), (2, 1), (2, 2), (2, 3), (3, 1), (3, 2)]
    shapes = A.SHAPES_LE3 if tier == "thorough" else shapes_q
    for (m, n) in shapes:
        N = A.ternary_count(m, n)
        for lo, hi in _blocks(N, BLOCK):
            cases.append(dict(src="ternary", m=m, n=n, lo=lo, hi=hi, fam="eps", seed=seed))
            if (tier == "thorough" and m <= 3) or m == 2:
                cases.append(dict(src="ternary", m=m, n=n, lo=lo, hi=hi, fam="rowscale", seed=seed))
    cases.append(dict(src="near", fam="eps", seed=seed))
    cases.append(dict(src="near", fam="rowscale", seed=seed))
    dshapes = [(3, 4)] if tier == "quick" else [(3, 4), (4, 3), (4, 5), (5, 4)]
    for (m, n) in dshapes:
        cases.append(dict(src="dense", m=m, n=n, fam="eps", seed=seed))
        if m <= 4:
            cases.append(dict(src="dense", m=m, n=n, fam="rowscale", seed=seed))
    cases.append(dict(src="bufreuse", fam="bufreuse", seed=seed))  # one instance, one matrix buffer re-filled in place (mc/bufreuse.py)
    return cases


def _matrices(case):
    if case["src"] == "ternary":
        return [A.ternary_index(case["m"], case["n"], i) for i in range(case["lo"], case["hi"])]
    if case["src"] == "near":
        return A.near_cases()
    return A.dense(case["seed"], case["m"], case["n"], 8)


_REF_CACHE = {}


def _ref(which, Jd, uu, u_is_none, norm_eps, reg_eps, key):
    k = (which, key, reg_eps, norm_eps > 0 and A.sigma_max(Jd) >= norm_eps)
    if k not in _REF_CACHE:
        if len(_REF_CACHE) > 20000:
            _REF_CACHE.clear()
        fn = R.upgrad_weights if which == "upgrad" else R.dualproj_weights
        w_ref, res, _ = fn(Jd, None if u_is_none else uu, norm_eps, reg_eps)
        _REF_CACHE[k] = (w_ref, res)
    return _REF_CACHE[k]


def check_one(J, u, norm_eps, reg_eps, dtype, which, key=None, pref_dtype=None):
    """Runs the real aggregator on J and compares with the reference.
    Returns (viol|None, {oracle: err/tol}, nontrivial, outcome)."""
    import torch
    from torchjd.aggregation import DualProj, UPGrad

    dt = getattr(torch, dtype)
    Jt = torch.tensor(J, dtype=dt)
    Jd = Jt.double().numpy()  # the matrix really seen (after rounding to dtype)
    m = J.shape[0]
    # the preference vector may be given in a coarser dtype than the matrix (float32, or integers): the weights must not be rounded to it
    pref = None if u is None else torch.tensor(u, dtype=dt if pref_dtype is None else getattr(torch, pref_dtype))
    cls = UPGrad if which == "upgrad" else DualProj
    # positional (documented order: pref_vector, norm_eps, reg_eps) whenever the two eps differ - a swap in a signature is then visible
    agg = cls(pref, norm_eps, reg_eps) if norm_eps != reg_eps else cls(pref_vector=pref, norm_eps=norm_eps, reg_eps=reg_eps)
    uu = np.full(m, 1.0 / m) if u is None else (pref.double().numpy())
    got = []
    h = agg.weighting.register_forward_hook(lambda mod, inp, out: got.append(out))
    try:
        x = agg(Jt)
    except Exception as e:
        return dict(sig=f"exception:{which}:{type(e).__name__}", msg=f"J={J.tolist()} u={u} eps=({norm_eps},{reg_eps}) {dtype}: {e!r}"[:400]), {}, False, "exc"
    finally:
        h.remove()
    if x.dtype != dt or tuple(x.shape) != (J.shape[1],) or len(got) != 1:
        return dict(sig=f"bad-output-type:{which}", msg=f"dtype={x.dtype} shape={tuple(x.shape)} weighting calls={len(got)}"), {}, False, "exc"
    w = got[0].double().numpy()
    x = x.double().numpy()
    if not (np.isfinite(x).all() and np.isfinite(w).all()):
        return dict(sig=f"non-finite-output:{which}", msg=f"J={J.tolist()} u={u} eps=({norm_eps},{reg_eps}) {dtype}: x={x.tolist()} w={w.tolist()}"[:400]), {}, False, "exc"
    s = A.sigma_max(Jd)
    f32 = dtype == "float32"
    w_ref, res = _ref(which, Jd, uu, u is None, norm_eps, reg_eps, key if key is not None else (Jd.tobytes(), uu.tobytes()))
    if res > 1e-9:
        return None, {}, False, "dropped"  # reference not certified (counted)
    x_ref = Jd.T @ w_ref
    # the problem is homogeneous of degree one in u: tolerances follow the size of u (1 for every preference of ordinary size)
    u_size = min(1.0, float(np.abs(uu).max()) * m)
    wsc = max(u_size, float(np.abs(w_ref).max()))
    ssc = max(s, 1e-300)
    # tolerances: outputs 1e-9*s (float64), 2e-4*s (float32), times the size of the weights; weights 1e-10/reg_eps
    # plus an absolute floor of a few float64 roundings relative to s (the QP solver's feasibility test is absolute at that level:
    # with |u| ~ 1e-12 its answer is off by ~1e-16, observed) - only visible with the tiny preference vectors
    floor = 32 * 2.3e-16
    tol_x = (1e-9 if not f32 else 2e-4) * ssc * wsc + floor * ssc
    tol_w = (1e-10 / reg_eps) * wsc + floor
    ex = float(np.abs(x - x_ref).max())
    ew = float(np.abs(w - w_ref).max())
    mg = {"output": ex / tol_x}
    if not f32:
        mg["weights"] = ew / tol_w
    # x must be the combination w @ J of the weights it reports
    ec = float(np.abs(x - Jd.T @ w).max())
    tol_comb = (1e-12 if not f32 else 1e-5) * ssc * wsc * m
    mg["combine"] = ec / tol_comb
    viol = None
    desc = f"J={J.tolist()} u={None if u is None else list(u)} eps=({norm_eps},{reg_eps}) {dtype} s={s:.3g}"
    if not (ex <= tol_x):
        viol = dict(sig=f"output-mismatch:{which}", msg=f"{desc}: x={x.tolist()} ref={x_ref.tolist()} err/tol={ex / tol_x:.3g}")
    elif not f32 and not (ew <= tol_w):
        viol = dict(sig=f"weights-mismatch:{which}", msg=f"{desc}: w={w.tolist()} ref={w_ref.tolist()} err/tol={ew / tol_w:.3g}")
    elif not (ec <= tol_comb):
        viol = dict(sig=f"not-the-combination-of-its-weights:{which}", msg=f"{desc}: x={x.tolist()} w@J={(Jd.T @ w).tolist()}")
    # corollaries, checked literally. "Exactly" is decided up to the conditioning 1/reg_eps of the QP.
    Jn = Jd / s if s > 0 else Jd  # sign pattern of the Gramian, computed without overflow at extreme scales
    G = Jn @ Jn.T
    xu = Jd.T @ uu
    usc = max(u_size, float(np.abs(uu).max()))
    tol_c = ((1e-13 + 1e-15 / reg_eps) if not f32 else 1e-5) * ssc * usc
    if viol is None and s >= norm_eps and (G >= 0).all():
        e = float(np.abs(x - xu).max())
        mg["noconflict"] = e / tol_c
        if not (e <= tol_c):
            viol = dict(sig=f"no-conflict-not-JTu:{which}", msg=f"{desc}: x={x.tolist()} JTu={xu.tolist()}")
    if viol is None and s < norm_eps:
        tol_b = (1e-13 if not f32 else 1e-5) * ssc * usc
        e = float(np.abs(x - xu).max())
        mg["belownorm"] = e / tol_b
        if not (e <= tol_b):
            viol = dict(sig=f"below-norm-eps-not-JTu:{which}", msg=f"{desc}: x={x.tolist()} JTu={xu.tolist()}")
    nontrivial = s >= norm_eps and bool((G < 0).any())
    return viol, mg, nontrivial, digest(np.round(w_ref / wsc, 6).tolist())


def _configs(J0, fam):
    m = J0.shape[0]
    P = A.pref_vectors(m)
    if not np.any(J0):
        return [(1.0, None, None, 1e-4, 1e-4, "float64"), (1.0, None, P[-1], 1e-4, 1e-4, "float32")]
    configs = []
    if fam == "eps":
        for k, (ne, re_) in enumerate(EPS_PAIRS):
            prefs = P if k < 2 else [None, P[-2]]
            for u in prefs:
                configs.append((ne / 10, None, u, ne, re_, "float64"))
                configs.append((1.0, None, u, ne, re_, "float64"))
            for u in (None, P[-1], P[-2]):
                configs.append((ne * 10, None, u, ne, re_, "float64"))
            if k == 0:
                configs.append((1.0, None, np.arange(1, m + 1, dtype=np.float64), ne, re_, "float64", "int64"))
                configs.append((1.0, None, P[-2], ne, re_, "float64", "float32"))
            if k == 0:  # tiny preference vectors (the projection is homogeneous in u: nothing may be cut off at an absolute threshold)
                for f in (1e-6, 1e-9, 1e-12):
                    configs.append((1.0, None, P[-2] * f, ne, re_, "float64"))
                configs.append((1.0, None, P[-2] * 1e-9, ne, re_, "float32"))
            if k == 0:  # extreme global scales, where squaring the matrix before normalising it would overflow / underflow
                for u in (None, P[-2]):
                    configs.append((1e160, None, u, ne, re_, "float64"))
                    configs.append((1e20, None, u, ne, re_, "float32"))
            if re_ >= 1e-4:  # float32: reg_eps must dominate the rounding error of the float32 Gramian (DESIGN C03)
                configs.append((ne * 10, None, None, ne, re_, "float32"))
                configs.append((1.0, None, P[-1], ne, re_, "float32"))
    else:
        for c in itertools.product(A.L3, repeat=m):
            if len(set(c)) == 1:
                continue
            for u in (None, P[-2]):
                configs.append((1.0, np.array(c), u, 1e-4, 1e-4, "float64"))
            configs.append((1.0, np.array(c), None, 1e-2, 1e-6, "float64"))
    return configs


def _reuse_check(mats, viol):
    """One instance per aggregator with an explicit float64 preference vector, reused over all matrices of the block: every result
    must be bit-identical to a new instance's, and the user's preference tensor must not be modified."""
    import torch
    from torchjd.aggregation import DualProj, UPGrad

    execs = 0
    m = mats[0].shape[0]
    if m < 2:
        return 0
    p0 = A.pref_vectors(m)[-2]
    for cls in (DualProj, UPGrad):
        pref = torch.tensor(p0, dtype=torch.float64)
        before = pref.numpy().tobytes()
        agg = cls(pref_vector=pref)
        for J in mats:
            if not np.any(J):
                continue
            Jt = torch.tensor(J, dtype=torch.float64)
            try:
                x = agg(Jt).numpy()
                y = cls(pref_vector=torch.tensor(p0, dtype=torch.float64))(Jt).numpy()
            except Exception:
                continue  # reported by the main loop
            execs += 2
            if pref.numpy().tobytes() != before:
                viol.append(dict(sig=f"pref-vector-modified:{cls.__name__}", msg=f"{cls.__name__}: the user's pref_vector {p0.tolist()} became {pref.tolist()} after a call on J={J.tolist()}"))
                break
            if x.tobytes() != y.tobytes():
                viol.append(dict(sig=f"result-depends-on-earlier-calls:{cls.__name__}", msg=f"{cls.__name__}(pref={p0.tolist()}) reused: J={J.tolist()} gives {x.tolist()}, a new instance gives {y.tolist()}"))
                break
    return execs


def run_case(case):
    if case["fam"] == "bufreuse":
        import torch
        from torchjd.aggregation import DualProj, UPGrad

        from mc import bufreuse

        pv = lambda dt: torch.tensor([1.0, 2.0, 3.0], dtype=dt) / 6  # noqa: E731
        return bufreuse.run({"UPGrad": lambda dt: UPGrad(), "UPGrad|p": lambda dt: UPGrad(pref_vector=pv(dt)), "DualProj": lambda dt: DualProj(),
                             "DualProj|p": lambda dt: DualProj(pref_vector=pv(dt)), "UPGrad|eps": lambda dt: UPGrad(norm_eps=1e-2, reg_eps=1e-6)})
    mats = _matrices(case)
    viol, outcomes, execs, nontriv, dropped, margin, maxima = [], set(), 0, 0, 0, 0.0, {}
    if case["fam"] == "eps":
        execs += _reuse_check(mats, viol)
    for mi, J0 in enumerate(mats):
        for ci, cfg_ in enumerate(_configs(J0, case["fam"])):
            t, c, u, ne, re_, dtype = cfg_[:6]
            pdt = cfg_[6] if len(cfg_) > 6 else None
            J = J0.copy()
            if c is not None:
                J = c[:, None] * J
            s0 = A.sigma_max(J)
            if s0 > 0 and t != 1.0:
                J = J * (t / s0)
            ukey = None if u is None else tuple(u.tolist())
            ckey = None if c is None else tuple(c.tolist())
            for which in ("upgrad", "dualproj"):
                v, mg, nt, out = check_one(J, u, ne, re_, dtype, which, key=(mi, ckey, ukey, pdt), pref_dtype=pdt)
                execs += 1
                if out == "dropped":
                    dropped += 1
                    continue
                for k, val in mg.items():
                    kk = f"{k}:{which}:{dtype}:reg={re_}"
                    maxima[kk] = max(maxima.get(kk, 0.0), val)
                    margin = max(margin, val)
                nontriv += int(nt)
                outcomes.add(out)
                if v is not None:
                    v["cls"] = v["sig"] + ":" + dtype + f":{ne}:{re_}"
                    viol.append(v)
    _REF_CACHE.clear()
    return dict(viol=viol, execs=execs, outcomes=sorted(outcomes), nontrivial=nontriv, dropped=dropped, margin=margin, maxima=maxima)
