"""C02 — mtl_backward(): own-task gradients for heads, aggregated Jacobian for the trunk (DESIGN §3 C02).

E-enum over trunk programs x feature picks x head-template assignments x parameter listings (explicit /
defaulted / extra / reversed) x loss orders x aggregators x chunk sizes x dtypes; oracle = NumPy reference
(forward-mode trunk Jacobian x analytic head derivatives).
"""
from __future__ import annotations

import itertools

import numpy as np

from mc import mtlprogs as M
from mc import programs as P
from mc.runner import digest

SPEC = dict(
    property_id="C02",
    level="model_checking",
    rule=(
        "case = (trunk program, ordered feature list, head-template assignment); executions = every configuration "
        "(loss order, explicit/defaulted/extra/reversed parameter lists, aggregator, chunk size, dtype, pre-existing .grad) "
        "of that case on the real mtl_backward(); non-trivial = distinct cases with >= 2 tasks whose reference Jacobian has "
        ">= 2 distinct rows (row/task permutations observable)"
    ),
    bound=dict(
        quick="trunks with 1 op (scenarios S1, S2; 1..2 features in both orders) x all head assignments for 1..2 tasks, "
              "the consecutive template triples for 3 tasks; 10 head templates; five- and six-task cases (chunk sizes m-1, m-2) on six trunks; "
              "configurations: every loss order, shared all / reversed / dependencies / default / empty, container kinds, repeated call on a retained graph, rejection of overlapping defaults",
        thorough="trunks with <= 2 ops (S1, S2; features in ascending order) x consecutive-template assignments for 1..3 tasks, "
                 "plus the whole quick space",
    ),
    assumptions=[
        "head menu of 10 templates (own / several / zero / pooled parameters, one or two features, a leaf read around the features, a loss that depends on another task's parameter without listing it)",
        "trunk ops limited to the grammar of mc/programs.py",
        "features are not computed from one another, and no feature is produced by the same autograd node as an ancestor of another feature "
        "(e.g. [x.unbind()[1], sin(x.unbind()[0])]): such nested features are excluded structurally - the statement does not define them. "
        "Observation (not asserted): with node-level nesting mtl_backward(retain_graph=False) raises 'backward through the graph a second time'",
    ],
)

WEIGHTS = [3.0, -2.0, 5.0, 0.5, -4.0, 7.0]  # no weight equals 1: a single task must still be weighted


def gen_cases(tier, seed):
    cases = []

    def add(scen, depth, both, mode):
        shapes = P.SHAPE_SCENARIOS[scen]
        for prog, feats in P.enum_program_outputs(shapes, (1, 1, 1), depth, both_orders=both):
            nfeat = len(feats)
            tt = P.Typed(prog)
            if tt.node_nested(feats):
                continue  # nested features (one feature computed from another): outside the statement
            for nt in (1, 2, 3):
                if mode == "all" and nt <= 2:
                    assigns = M.head_assignments(nt, nfeat, menu=M.TEMPLATES_EXT)
                else:
                    k = len(M.TEMPLATES_EXT)
                    assigns = [[{"tpl": M.TEMPLATES_EXT[(a + i) % k], "f": (i + a) % nfeat} for i in range(nt)] for a in range(k)]
                    if nt == 3:  # H10 next to an H6 head (which lists U) and one ordinary head
                        assigns.append([{"tpl": "H6", "f": 0}, {"tpl": "H10", "f": (1) % nfeat}, {"tpl": "H1", "f": 0}])
                for heads in assigns:
                    cases.append(dict(desc=dict(trunk=prog, feats=feats, heads=heads), seed=seed))

    add("S1", 1, True, "all")
    add("S2", 1, True, "all")
    # five and six tasks (chunk sizes m-1 and m-2 that neither divide m nor exceed it) on the first programs of S1; added after a seeded
    # change whose "balanced" chunks skipped rows for (m, c) = (5,4), (6,4), ...
    k = len(M.TEMPLATES_EXT)
    for prog, feats in list(P.enum_program_outputs(P.SHAPE_SCENARIOS["S1"], (1, 1, 1), 1, both_orders=False))[:6]:
        if P.Typed(prog).node_nested(feats):
            continue
        for nt in (5, 6):
            for a in (0, 3):
                heads = [{"tpl": [t for t in M.TEMPLATES_EXT if t != "H7"][(a + i) % (k - 1)], "f": (i + a) % len(feats)} for i in range(nt)]
                cases.append(dict(desc=dict(trunk=prog, feats=feats, heads=heads), seed=seed))
    if tier == "thorough":
        add("S1", 2, False, "consecutive")
        add("S2", 2, False, "consecutive")
    return cases


def _configs(nt, around):
    """(loss order, shared mode, task mode, aggregator, chunk, dtype[, container kind of the parameter arguments])"""
    cfgs = []
    ident = tuple(range(nt))
    for perm in (itertools.permutations(range(nt)) if nt <= 3 else [ident, ident[::-1], ident[1:] + ident[:1]]):
        cfgs.append((perm, "all", "own", "const", None, "float64"))
    for k in sorted({1, 2, nt + 1} | ({nt - 1, nt - 2} if nt >= 5 else set())):
        cfgs.append((ident[::-1], "all-rev", "own-rev", "const", k, "float64"))
    if not around:
        cfgs.append((ident, "default", "default", "const", None, "float64"))
        cfgs.append((ident[::-1], "default", "own", "upgrad-pref", 1, "float64"))
        cfgs.append((ident, "all", "default", "mean", None, "float64"))
    else:  # a loss reaches a shared parameter around the features: explicit shared + defaulted task parameters overlap -> rejected
        cfgs.append((ident, "all", "default", "const", None, "float64", "list", "once", "reject"))
    cfgs.append((ident, "deps", "extra", "const", None, "float64"))
    cfgs.append((ident, "none", "own", "const", None, "float64"))  # explicit empty shared_params: heads still get their gradients
    cfgs.append((ident, "all", "own", "upgrad-pref", None, "float64"))
    if nt >= 3:
        cfgs.append((ident, "all", "own", "krum", 2, "float64"))
    cfgs.append((ident[::-1], "all", "own", "const", None, "float32"))
    # the parameter arguments are documented as Iterable[Tensor]: generators (module.parameters()) and tuples, bare feature tensor
    cfgs.append((ident, "all", "own", "const", None, "float64", "gen"))
    cfgs.append((ident[::-1], "deps", "own-rev", "const", 1, "float64", "tuple"))
    # the same call twice on a retained graph: every requested .grad must receive the update twice
    cfgs.append((ident, "all", "own", "const", None, "float64", "list", "twice"))
    cfgs.append((ident[::-1], "all", "own", "const", 2, "float64", "list", "twice"))
    return cfgs


def _make_agg(name, nt, dtype):
    import torch
    from torchjd import aggregation as A

    dt = getattr(torch, dtype)
    if name == "const":
        return A.Constant(torch.tensor(WEIGHTS[:nt], dtype=dt))
    if name == "upgrad-pref":
        w = torch.arange(1, nt + 1, dtype=dt)
        return A.UPGrad(pref_vector=w / w.sum())
    if name == "mean":
        return A.Mean()
    return A.Krum(0, 1)


def run_case(case):
    import torch
    from torchjd import mtl_backward

    from mc.seams import RecordingAggregator, SetOrderSeam

    desc, seed = case["desc"], case["seed"]
    ref = M.MtlRef(desc, seed)
    t = ref.t
    nt = len(desc["heads"])
    around = M.uses_around(desc)
    grad_leaves = [i for i in range(t.nleaves) if t.req[i]]
    dep_leaves = sorted(set().union(*[t.deps[v] for v in desc["feats"]]))
    heads_ref = [ref.head(i) for i in range(nt)]
    viol, outcomes, execs, margin = [], set(), 0, 0.0
    maxima = {}
    fwd_ok = False
    nontrivial = 0
    for ci, cfg_ in enumerate(_configs(nt, around)):
        perm, smode, tmode, aggname, chunk, dtype = cfg_[:6]
        cont = cfg_[6] if len(cfg_) > 6 else "list"
        twice = len(cfg_) > 7 and cfg_[7] == "twice"
        reject = len(cfg_) > 8
        B = M.build_torch(desc, seed, dtype)
        vals = B["vals"]
        if not fwd_ok:
            if not P.forward_agrees(vals, ref.ref, dtype):
                raise RuntimeError("harness: trunk forward mismatch")
            for i in range(nt):
                if abs(float(B["losses"][i]) - heads_ref[i][0]) > 1e-9 * max(1.0, abs(heads_ref[i][0])) * (1 if dtype == "float64" else 1e5):
                    raise RuntimeError("harness: head forward mismatch " + str(desc["heads"][i]))
            fwd_ok = True
        # parameter listings
        if smode == "all":
            shared_idx = list(grad_leaves)
        elif smode == "all-rev":
            shared_idx = list(grad_leaves)[::-1]
        elif smode == "deps":
            shared_idx = list(dep_leaves)
        elif smode == "none":
            shared_idx = []
        else:
            shared_idx = None
        eff_shared = dep_leaves if shared_idx is None else shared_idx
        tp = [list(B["tparams"][i]) for i in range(nt)]
        if tmode == "own-rev":
            tp = [x[::-1] for x in tp]
        elif tmode == "extra" and nt >= 2:
            tp[0] = tp[0] + [p for p in tp[1] if all(p is not q for q in tp[0])]
        losses = [B["losses"][i] for i in perm]
        tparams = None if tmode == "default" else [tp[i] for i in perm]
        shared = None if shared_idx is None else [vals[l] for l in shared_idx]
        # pre-existing grads
        allp = []  # (key, tensor)
        for l in range(t.nleaves):
            allp.append((("leaf", l), vals[l]))
        for i in range(nt):
            for n_, p_ in zip(B["tnames"][i], B["tparams"][i]):
                if n_ != "U":
                    allp.append((("head", i, n_), p_))
        allp.append((("U",), B["U"]))
        pre = {}
        for k, (key, p_) in enumerate(allp):
            if p_.requires_grad and (k + ci) % 2 == 0:
                p_.grad = torch.full_like(p_, 0.5 + 0.25 * k)
                pre[key] = p_.grad.detach().clone()
        agg = RecordingAggregator(_make_agg(aggname, nt, dtype))
        feats_arg = B["feats"]
        if cont == "gen":
            shared = None if shared is None else (p_ for p_ in shared)
            tparams = None if tparams is None else [(p_ for p_ in tp_) for tp_ in tparams]
            losses = tuple(losses)
        elif cont == "tuple":
            shared = None if shared is None else tuple(shared)
            tparams = None if tparams is None else tuple(tuple(tp_) for tp_ in tparams)
            feats_arg = B["feats"][0] if len(B["feats"]) == 1 else tuple(B["feats"])
        cfg = f"perm={perm} shared={smode} tasks={tmode} agg={aggname} chunk={chunk} {dtype} containers={cont}"
        where = f"{P.prog_str(desc['trunk'])} feats={desc['feats']} heads={[(h['tpl'], h['f']) for h in desc['heads']]} | {cfg}"
        # every set(...) built inside torchjd.autojac iterates in listing order (even configurations) or reversed (odd ones)
        sgn = 1 if ci % 2 == 0 else -1
        rank = {}
        for j, x in enumerate([vals[l] for l in range(t.nleaves)] + list(B["feats"]) + list(B["losses"]) + [p_ for _, p_ in allp]):
            rank.setdefault(id(x), sgn * j)
        try:
          with SetOrderSeam(lambda x: rank.get(id(x), 10 ** 6)):
            if twice:
                for _ in range(2):
                    mtl_backward(losses=losses, features=feats_arg, aggregator=agg, tasks_params=tparams, shared_params=shared,
                                 parallel_chunk_size=chunk, retain_graph=True)
                agg.calls[:] = agg.calls[:1]
            else:
                mtl_backward(losses=losses, features=feats_arg, aggregator=agg, tasks_params=tparams, shared_params=shared,
                             parallel_chunk_size=chunk)
        except Exception as e:
            execs += 1
            if reject and isinstance(e, ValueError):
                changed = [key for key, p_ in allp if (p_.grad is None) != (key not in pre) or (key in pre and not torch.equal(p_.grad, pre[key]))]
                if changed:
                    viol.append(dict(sig="rejected-call-modified-grad", msg=f"{where} | {changed}"[:700]))
                outcomes.add("rejected")
                continue
            viol.append(dict(sig=f"exception:{type(e).__name__}", cls=f"exception:{type(e).__name__}:{smode}:{tmode}",
                             msg=f"{where} | {e!r}"[:700]))
            continue
        execs += 1
        if reject:
            viol.append(dict(sig="overlap-not-rejected", cls="overlap-not-rejected",
                             msg=f"{where} | a loss reaches a listed shared parameter without passing through the features; with defaulted "
                                 f"tasks_params that parameter is in both sets and the call must be rejected, it returned normally"[:800]))
            continue
        tol = 1e-11 if dtype == "float64" else 5e-5
        delta = {}
        for key, p_ in allp:
            g = p_.grad
            if g is None:
                delta[key] = None
            else:
                delta[key] = (g.detach().double().numpy() - (pre[key].double().numpy() if key in pre else 0.0)) / (2.0 if twice else 1.0)
        # ---- task parameters
        # tasks that LIST the pool parameter U: the H6 heads; an H10 head depends on U without listing it (unless its list is defaulted)
        if tmode == "default":
            usesU = [i for i in range(nt) if desc["heads"][i]["tpl"] in ("H6", "H10")]
        else:
            usesU = [i for i in range(nt) if any(p_ is B["U"] for p_ in tp[i])]
        bad = None
        for i in range(nt):
            for n_, p_ in zip(B["tnames"][i], B["tparams"][i]):
                if n_ == "U":
                    continue
                exp = heads_ref[i][2][n_]
                got = delta[("head", i, n_)]
                if got is None:
                    bad = f"head {i} param {n_}: .grad not created (containers={cont})"
                    break
                sc = max(1.0, float(np.abs(exp).max()))
                e = float(np.abs(got - exp).max()) / (tol * sc * 8)
                maxima["taskparam"] = max(maxima.get("taskparam", 0.0), e)
                if not (e <= 1):  # NaN-safe
                    bad = f"head {i} param {n_}: got {got.tolist()} expected {np.asarray(exp).tolist()}"
                    break
            if bad:
                break
        if not bad and usesU:
            exp = sum(float(heads_ref[i][2].get("U", 0.0)) for i in usesU)
            got = delta[("U",)]
            if got is None:
                bad = "pooled param U: .grad not created"
            else:
                e = abs(float(got) - exp) / (tol * max(1.0, abs(exp)) * 8)
                maxima["pooled"] = max(maxima.get("pooled", 0.0), e)
                if not (e <= 1):  # NaN-safe
                    bad = f"pooled param U (tasks {usesU}): got {float(got)} expected {exp}"
        if not bad and not usesU and delta[("U",)] is not None and ("U",) not in pre:
            bad = "unused pooled param U received a .grad"
        if bad:
            viol.append(dict(sig=f"task-param-gradient:containers={cont}", cls=f"task-param:{tmode}:{cont}", msg=f"{where} | {bad}"[:800]))
            continue
        # ---- shared parameters
        Jref = ref.shared_jacobian(eff_shared)[list(perm)]  # row k belongs to losses[k]
        scale = max(1.0, float(np.abs(Jref).max()) if Jref.size else 1.0)
        untouched_ok = True
        for l in range(t.nleaves):
            if l not in eff_shared:
                key = ("leaf", l)
                g = vals[l].grad
                if key in pre:
                    untouched_ok &= g is not None and torch.equal(g, pre[key])
                else:
                    untouched_ok &= g is None
        if not untouched_ok:
            viol.append(dict(sig="unrequested-leaf-touched", msg=where[:700]))
            continue
        if len(eff_shared) == 0:
            outcomes.add("noshared")
            continue
        if any(delta[("leaf", l)] is None for l in eff_shared):
            viol.append(dict(sig=f"shared-grad-not-created:containers={cont}", msg=where[:700]))
            continue
        if len(agg.calls) != 1:
            viol.append(dict(sig="aggregator-call-count", msg=f"{len(agg.calls)} | {where}"[:700]))
            continue
        Mx, x = agg.calls[0]
        Mx, x = Mx.double().numpy(), x.detach().double().numpy()
        best, found = np.inf, None
        for order in itertools.permutations(eff_shared):
            Jp = ref.shared_jacobian(list(order))[list(perm)]
            if Jp.shape != Mx.shape:
                continue
            e1 = float(np.abs(Mx - Jp).max()) / (tol * scale * 8)
            off, e2 = 0, 0.0
            xs = max(1.0, float(np.abs(x).max()))
            for l in order:
                n = t.numel(l)
                e2 = max(e2, float(np.abs(x[off:off + n].reshape(t.shapes[l]) - delta[("leaf", l)]).max()) / (tol * xs * 8))
                off += n
            if max(e1, e2) < best:
                best, found = max(e1, e2), order
        maxima["jacobian+slices"] = max(maxima.get("jacobian+slices", 0.0), min(best, 1e9))
        if not (best <= 1):  # NaN-safe
            viol.append(dict(sig="shared-jacobian-or-slices-mismatch", cls=f"shared:{aggname}:{smode}:{cont}",
                             msg=f"{where} | err/tol={best:.3g} M={np.round(Mx, 6).tolist()} Jref={np.round(Jref, 6).tolist()}"[:900]))
            continue
        if aggname == "const":
            w = np.array(WEIGHTS[:nt])
            exp = w @ Jref
            off = 0
            for l in eff_shared:
                n = t.numel(l)
                e = float(np.abs(exp[off:off + n].reshape(t.shapes[l]) - delta[("leaf", l)]).max()) / (tol * 5.0 * scale * 8)
                maxima["const"] = max(maxima.get("const", 0.0), e)
                if not (e <= 1):  # NaN-safe
                    viol.append(dict(sig="constant-weights-value-mismatch", cls="constvalue",
                                     msg=f"{where} | leaf {l}: got {delta[('leaf', l)].tolist()} expected {exp[off:off + n].tolist()}"[:900]))
                    break
                off += n
        if nt >= 2 and len({tuple(np.round(r, 9)) for r in Jref}) >= 2:
            nontrivial = 1
        outcomes.add(digest([np.round(delta[("leaf", l)], 6).tolist() for l in eff_shared]))
    margin = max(maxima.values()) if maxima else 0.0
    return dict(viol=viol, execs=execs, outcomes=sorted(outcomes), nontrivial=nontrivial, margin=margin, maxima=maxima)
