"""C10 — the order of the objectives does not matter (DESIGN §3 C10).

E-enum: matrices x ALL m! row permutations (m <= 5) x aggregator configurations whose row-aligned parameter
vector (pref_vector / Constant weights / GradDrop leak) is permuted along with the rows; GradDrop's draw U (one
entry per column, untouched by a row permutation) is replayed through mc.seams.DrawReplayer.

  orbit  : for every orbit of {-1,0,1}-matrices (m <= 3) under row permutation, and for a set of parameter vectors
           closed under permutation, the real aggregators are executed on EVERY (member, parameter vector); then for
           every member J, EVERY pi in S_m and every parameter vector p the two recorded executions A_p(J) and
           A_{pi p}(pi J) are compared (pi J is again a member, pi p again in the set).
  direct : Near family and dense families (m = 2..5): A_p(J) and A_{pi p}(pi J) executed for every pi in S_m.
"""
from __future__ import annotations

import itertools
import math

import numpy as np

from mc import aggkit as K
from mc import alphabets as A
from mc.runner import digest

SPEC = dict(
    property_id="C10",
    level="exploration",
    exhaustive=True,
    rule=(
        "case = block of row-permutation orbits of ternary matrices, or one Near / dense matrix; execution = one call of a real "
        "aggregator configuration; evaluation = one comparison (configuration with parameter vector p, matrix J, permutation pi): "
        "A_{pi p}(pi J) against A_p(J); non-trivial = comparisons where (pi J, pi p) differs from (J, p) AND A_p(J) is not the zero "
        "vector (the permutation is observable)"
    ),
    bound=dict(
        quick=(
            "all {-1,0,1} matrices with m in {2,3} rows and n <= 3 columns except 3x3, where MGDA/CAGrad (4-11 ms per call) and "
            "all others run on the orbits of the structural sublist (smallest member of each class under row/column permutation "
            "and column sign flips); Near family; D(seed) and the full-rank family dense2(seed) for m = 4 (all 24 permutations), "
            "2 matrices each per shape; all of S_m; special families: IMTL-G on all {-1,0,1,2} 4x2 and on every exactly stationary "
            "{-1,0,1} matrix (both dtypes, 3 scales), trimmed mean with huge cancelling rows, tall float32 Krum, native-seed GradDrop, instance re-use after a null row, "
            "rows of one buffer re-ordered in place (15 configurations x 24 orders), ConFIG null direction with preference magnitudes 1e-5..1e5"
        ),
        thorough="all {-1,0,1} matrices with m in {2,3}, n <= 3; Near; both dense families, 8 matrices per shape, m in {2,3,4,5}, n in {2,3,4}: all 120 permutations for m = 5",
    ),
    assumptions=[
        "matrices off the finite alphabet are not covered; m <= 5 (the 'random permutations beyond' clause is sampling and is not done); float64 only",
        "parameter vectors: P(m) = uniform (None), every one-hot, (1..m)/sum, (1e-3,1,..,1) for pref_vector of UPGrad / DualProj / "
        "AlignedMTL / ConFIG; Constant weights additionally (1,-2,0.5,3,-0.25)[:m] (negative entries); GradDrop leak in {None, (0,.5,1,.25,.75)[:m]}; "
        "on the ternary orbits the closure of these under S_m",
        "GradDrop draws: every U in {0,1/4,1/2,3/4,.999}^n for n <= 2 and for 2x3; for 3x3 and the dense families an orthogonal array "
        "(25 vectors: every pair of columns sees every pair of values; quick: 5 cyclic vectors, every column sees every value)",
        "no exact score ties: Krum only where the k-th and (k+1)-th smallest score differ by >= 1e-6 relative (mc.refmodels.krum_scores); "
        "TrimmedMean needs no predicate",
        "MGDA: Frank-Wolfe breaks ties of argmin(G alpha) by row index, so on a tie a row permutation changes the vertex and all later "
        "iterates - in exact arithmetic, not by rounding. This is an 'exact score tie' of the quantifier. A float64 replay of the "
        "documented iteration (aggkit.mgda_trajectory_margin) yields the smallest gap of any decision along the trajectory; gap >= 1e-9: "
        "tight tolerance 1e-9 s. Otherwise only what the algorithm guarantees for both results is asserted: each is within "
        "s sqrt(max(8 epsilon, 16/(max_iters+2))) of the min-norm point (stopping rule gamma < epsilon bounds the Frank-Wolfe gap by "
        "8 epsilon s^2; the O(1/k) rate bounds it otherwise; |x-x*|^2 <= |x|^2-|x*|^2 on a convex set), hence |x-x'| <= 0.79 s",
        "IMTL-G / ConFIG / Aligned-MTL / CAGrad only on matrices whose singular values (of J, for ConFIG also of the unit rows) are all "
        ">= 1e-2 or <= 1e-9 relative to the largest; IMTL-G only where |1^T pinv(G) d| max(d) >= 1e-6 and 1e-3 <= s <= 1e3 (C11's finding); "
        "ConFIG points where pinv(unit rows) @ pref = 0 in exact arithmetic are reported apart (zero-direction:ConFIG)",
        "because the uniform start makes most small integer matrices tie at once (tie-free: 1 of 729 for 2x3, 145 of 729 for 3x2, 43% of 3x3), "
        "MGDA and CAGrad are additionally run on diag(1, 1.37, 0.61) J for every row-orbit representative J (tie-free: 66% of 3x2, 86% of 3x3)",
        "tolerances 1e-9 * sigma_max(J) * max(1, |weights|_inf); CAGrad 3e-4 (Clarabel stops at a 1e-8 duality gap, the output "
        "direction g_w/|g_w| is determined to about its square root; observed worst 1.7e-5 over the thorough tier of C08)",
    ],
)

DETERMINISM_SLICE = 8
TOL = 1e-9
TOL_BY_AGG = {"CAGrad": 3e-4}
SLOW = ("MGDA", "CAGrad")
INC5 = [1.0, 2.0, 3.0, 4.0, 5.0]
CONSTW = [1.0, -2.0, 0.5, 3.0, -0.25]
LEAK = [0.0, 0.5, 1.0, 0.25, 0.75]
UVALS = [0.0, 0.25, 0.5, 0.75, 0.999]
ROWSCALE = [1.0, 1.37, 0.61]
Ctx, Pred, MGDA_LOOSE = K.Ctx, K.Pred, K.MGDA_LOOSE


# ----------------------------------------------------------------------------- alphabets
def _digits(m, n):
    N = 3 ** (m * n)
    idx = np.arange(N)
    d = np.zeros((N, m * n), dtype=np.int64)
    for pos in range(m * n - 1, -1, -1):
        d[:, pos] = idx % 3
        idx = idx // 3
    return d.reshape(N, m, n)


def _index(d):
    N, m, n = d.shape
    return d.reshape(N, m * n) @ (3 ** np.arange(m * n - 1, -1, -1))


def row_orbit_reps(m, n, cols=False):
    """Smallest index of each orbit of T(m,n) under row permutation (``cols``: also column permutations and
    column sign flips = the structural sublist)."""
    d = _digits(m, n)
    best = _index(d)
    cps = list(itertools.permutations(range(n))) if cols else [tuple(range(n))]
    sgn = list(itertools.product((1, -1), repeat=n)) if cols else [(1,) * n]
    for rp in itertools.permutations(range(m)):
        dr = d[:, list(rp), :]
        for cp in cps:
            dc = dr[:, :, list(cp)]
            for s in sgn:
                e = dc.copy()
                flip = np.array(s) < 0
                e[:, :, flip] = 2 - e[:, :, flip]
                best = np.minimum(best, _index(e))
    return sorted(set(best.tolist()))


def u_vectors(n, level):
    """GradDrop draws. level 'all': every vector of UVALS^n; 'oa': orthogonal array (U0,U1 free, U2 = index sum,
    U3 = index sum with weight 2); 'cyc': 5 cyclic vectors."""
    if n == 0:
        return [[]]
    if level == "all" or (level == "oa" and n <= 2):
        return [list(u) for u in itertools.product(UVALS, repeat=n)]
    if level == "oa":
        out = []
        for i in range(5):
            for j in range(5):
                idx = [i, j, (i + j) % 5, (i + 2 * j) % 5]
                out.append([UVALS[k] for k in idx[:n]])
        return out
    return [[UVALS[(i + j) % 5] for j in range(n)] for i in range(5)]


def _blocks(xs, size):
    return [xs[i : i + size] for i in range(0, len(xs), size)]


def gen_cases(tier, seed):
    cases = []
    thorough = tier == "thorough"
    # the quick tier runs part of the aggregators on a stated structural sublist of the alphabet only
    SPEC["exhaustive"] = thorough
    for m in (2, 3):
        for n in (1, 2, 3):
            reps = row_orbit_reps(m, n)
            if (m, n) == (3, 3) and not thorough:
                canon = set(row_orbit_reps(m, n, cols=True))
                reps = [r for r in reps if r in canon]
            ul = "all" if (thorough and m * n <= 6) or n <= 2 else ("oa" if thorough else "cyc")
            per = {1: 60, 2: 30, 3: 6}[n] if m == 2 else {1: 10, 2: 8, 3: 3}[n]
            for blk in _blocks(reps, per):
                cases.append(dict(kind="orbit", m=m, n=n, reps=blk, aggs="fast", ulevel=ul, seed=seed))
            for blk in _blocks(reps, max(1, per // 2)):
                cases.append(dict(kind="orbit", m=m, n=n, reps=blk, aggs="slow", ulevel=ul, seed=seed))
                # generic row scaling breaks the symmetric argmin ties of Frank-Wolfe: MGDA on tie-free trajectories
                cases.append(dict(kind="orbit", m=m, n=n, reps=blk, aggs="slow", ulevel=ul, seed=seed, rowscale=True))
    for i in range(len(A.near_cases())):
        cases.append(dict(kind="near", i=i, aggs="all", ulevel="oa" if thorough else "cyc", seed=seed))
    if thorough:
        dshapes = [(m, n) for m in (2, 3, 4, 5) for n in (2, 3, 4)]
        ks = list(range(16))
    else:
        dshapes = [(3, 3), (4, 2), (4, 3), (4, 4)]
        ks = [0, 1, 8, 9]
    for (m, n) in dshapes:
        for k in ks:
            if m == 5:
                for part in range(4):  # 120 permutations split over 4 cases
                    cases.append(dict(kind="dense", m=m, n=n, k=k, part=part, parts=4, aggs="all", ulevel="cyc", seed=seed))
            else:
                cases.append(dict(kind="dense", m=m, n=n, k=k, part=0, parts=1, aggs="all", ulevel="oa" if thorough and m <= 3 else "cyc", seed=seed))
    for lo in range(0, 4 ** 8, 1024):
        cases.append(dict(kind="special", what="imtlg-tall-integer", lo=lo, hi=min(4 ** 8, lo + 1024)))
    for k in range(3):
        cases.append(dict(kind="special", what="native-seed", k=k))
    cases.append(dict(kind="special", what="tm-huge-cancel"))
    cases.append(dict(kind="special", what="reuse-after-null-row"))
    cases.append(dict(kind="special", what="buffer-permuted"))
    for (m_, n_) in ((2, 1), (2, 2), (3, 1), (3, 2), (3, 3)):
        cases.append(dict(kind="special", what="imtlg-stationary", m=m_, n=n_))
    cases.append(dict(kind="special", what="config-null-direction-big-pref"))
    for m_ in (26, 30):
        for off in (0.0, 1e4):
            cases.append(dict(kind="special", what="krum-tall-float32", m=m_, offset=off))
    return cases


def dense_matrix(seed, m, n, k):
    return A.dense(seed, m, n, 8)[k] if k < 8 else K.dense2(seed, m, n, 8)[k - 8]


# ----------------------------------------------------------------------------- configurations
def param_vectors(m):
    return A.pref_vectors(m)


def _closure(vs):
    out, seen = [], set()
    for v in vs:
        if v is None:
            if None not in seen:
                seen.add(None)
                out.append(None)
            continue
        for perm in itertools.permutations(range(len(v))):
            w = tuple(float(v[i]) for i in perm)
            if w not in seen:
                seen.add(w)
                out.append(list(w))
    return out


def configs(m, n, which, ulevel, closed):
    """Configurations for m rows. ``closed``: parameter vectors closed under S_m (orbit cases)."""
    P = [None if v is None else [float(x) for x in v] for v in param_vectors(m)]
    cw = [p for p in P if p is not None] + [CONSTW[:m]]
    leaks = [None, LEAK[:m]]
    if closed:
        P, cw, leaks = _closure(P), _closure(cw), _closure(leaks)
    fast, slow = [], []
    for name in ("UPGrad", "DualProj", "AlignedMTL", "ConFIG"):
        fast += [dict(name=name, p=p) for p in P]
    fast += [dict(name="Constant", p=p) for p in cw]
    fast += [dict(name="Mean"), dict(name="Sum"), dict(name="IMTLG")]
    fast += [dict(name="TrimmedMean", b=b) for b in range(0, (m - 1) // 2 + 1)]
    if m == 3:
        fast += [dict(name="Krum", f=0, k=1), dict(name="Krum", f=0, k=2), dict(name="Krum", f=0, k=3)]
    if m == 4:
        fast += [dict(name="Krum", f=f, k=k) for f, k in ((0, 1), (0, 2), (0, 3), (1, 1), (1, 2), (1, 4))]
    if m == 5:
        fast += [dict(name="Krum", f=f, k=k) for f, k in ((0, 1), (0, 3), (1, 1), (1, 2), (2, 1), (2, 2), (2, 5))]
    for U in u_vectors(n, ulevel):
        fast += [dict(name="GradDrop", p=lk, U=U) for lk in leaks]
    slow += [dict(name="MGDA"), dict(name="CAGrad", c=0.5)]
    if m * n <= 6 or not closed:
        slow.append(dict(name="CAGrad", c=2.0))
    return {"fast": fast, "slow": slow, "all": fast + slow}[which]


# ----------------------------------------------------------------------------- oracles
def base_record(ctx, cfg, J, pred, out):
    x, w = out
    s = max(pred.s, 1e-300)
    wsc = K.weights_scale(w, x, pred.s)
    ctx.outcomes.add(digest([K.cfg_label(cfg), np.round(x / (s * wsc), 6).tolist()]))
    if not np.all(np.isfinite(x)):
        ctx.viol.append(dict(sig=f"nonfinite-output:{cfg['name']}", msg=f"{K.cfg_key(cfg)} J={J.tolist()} x={x.tolist()}"[:600]))
        return False
    return True


def tolerance(cfg, adm, pred, out):
    s = max(pred.s, 1e-300)
    if adm == "mgda-tie":
        return MGDA_LOOSE * s
    return TOL_BY_AGG.get(cfg["name"], TOL) * s * K.weights_scale(out[1], out[0], pred.s)


def compare(ctx, cfg, pred, J, perm, base, got, moved):
    adm = pred.admissible(cfg, True, row_order=True)
    name, lab = cfg["name"], K.cfg_label(cfg)
    if adm is not None and adm.startswith("drop:"):
        ctx.dropped += 1
        ctx.count(adm)
        return
    err = float(np.abs(got - base[0]).max()) if got.size else 0.0
    if not np.all(np.isfinite(got)):
        err = math.inf
    tol = tolerance(cfg, adm, pred, base)
    msg = lambda: (f"{K.cfg_key(cfg)} J={J.tolist()} pi={list(perm)}: A_pi_p(pi J)={got.tolist()} A_p(J)={base[0].tolist()} "  # noqa: E731
                   f"err={err:.3g} tol={tol:.3g}")
    if adm == "zero-direction":
        ctx.zero_direction("row-permutation", err, tol, msg)
        return
    if adm == "mgda-tie":
        ctx.count("mgda-tie-comparisons")
        oracle, sig = "rowperm:MGDA(argmin tie, loose bound)", "rowperm:MGDA-tie"
    else:
        oracle, sig = f"rowperm:{lab}", f"rowperm:{name}"
        if name == "MGDA":
            ctx.count("mgda-tight-comparisons")
    if moved and bool(np.any(base[0] != 0)):
        ctx.nontrivial += 1
    ctx.compare(oracle, err, tol, sig, msg)


# ----------------------------------------------------------------------------- case runners
def run_orbit(case, ctx):
    m, n = case["m"], case["n"]
    perms = list(itertools.permutations(range(m)))
    cfgs = configs(m, n, case["aggs"], case["ulevel"], closed=True)
    keys = [K.cfg_key(c) for c in cfgs]
    kidx = {k: i for i, k in enumerate(keys)}
    nc = len(cfgs)
    is_mgda = np.array([c["name"] == "MGDA" for c in cfgs])
    maps = {p: np.array([kidx[K.cfg_key(K.permute_rows_cfg(c, p))] for c in cfgs]) for p in perms}
    for rep in case["reps"]:
        J0 = A.ternary_index(m, n, rep)
        if case.get("rowscale"):
            J0 = J0 * np.array(ROWSCALE[:m])[:, None]
        members = {}
        for p in perms:
            M = J0[list(p)]
            members.setdefault(M.tobytes(), M)
        X, valid, tol, status, nonzero, reason, preds = {}, {}, {}, {}, {}, {}, {}
        for kb, M in members.items():
            pr = preds[kb] = Pred(M)
            Xm, vm, tm, st, rs = np.full((nc, n), np.nan), np.zeros(nc, bool), np.ones(nc), np.zeros(nc, int), [None] * nc
            for i, cfg in enumerate(cfgs):
                out = ctx.call(cfg, M)
                if out is None or not base_record(ctx, cfg, M, pr, out):
                    continue
                adm = pr.admissible(cfg, True, row_order=True)
                Xm[i], vm[i], rs[i] = out[0], True, adm
                tm[i] = tolerance(cfg, adm, pr, out)
                st[i] = 0 if adm is None else (3 if adm == "zero-direction" else (2 if adm == "mgda-tie" else 1))
            X[kb], valid[kb], tol[kb], status[kb], reason[kb] = Xm, vm, tm, st, rs
            nonzero[kb] = np.any(np.nan_to_num(Xm) != 0, axis=1) & vm
        maxr, maxl, seen_t, seen_l = np.zeros(nc), np.zeros(nc), np.zeros(nc, bool), np.zeros(nc, bool)
        for p in perms:
            mp = maps[p]
            same_cfg = mp == np.arange(nc)
            for kb, M in members.items():
                kb2 = M[list(p)].tobytes()
                if kb2 not in members:
                    raise RuntimeError("orbit not closed")
                ok = valid[kb] & valid[kb2][mp]
                E = np.abs(X[kb2][mp] - X[kb]).max(axis=1) if n else np.zeros(nc)
                ratio = E / tol[kb]
                st = status[kb]
                asserted = ok & ((st == 0) | (st == 2))
                for i in np.nonzero(ok & (st == 1))[0]:
                    ctx.dropped += 1
                    ctx.count(reason[kb][i])
                ctx.count("comparisons", int(asserted.sum()))
                ctx.count("mgda-tie-comparisons", int((ok & (st == 2)).sum()))
                moved = ~same_cfg if kb2 == kb else np.ones(nc, bool)
                ctx.nontrivial += int((asserted & nonzero[kb] & moved).sum())
                rr = np.nan_to_num(ratio, nan=np.inf)
                tight, loose = ok & (st == 0), ok & (st == 2)
                np.maximum(maxr, np.where(tight, rr, 0.0), out=maxr)
                np.maximum(maxl, np.where(loose, rr, 0.0), out=maxl)
                seen_t |= tight
                ctx.count("mgda-tight-comparisons", int((tight & is_mgda).sum()))
                seen_l |= loose
                bad = (asserted & ~(ratio <= 1.0)) | (ok & (st == 3))
                for i in np.nonzero(bad)[0]:
                    cfg = cfgs[i]
                    got, base = X[kb2][mp[i]], X[kb][i]
                    msg = (f"{keys[i]} J={M.tolist()} pi={list(p)}: A_pi_p(pi J)={got.tolist()} A_p(J)={base.tolist()} "
                           f"err={E[i]:.3g} tol={tol[kb][i]:.3g}")
                    if st[i] == 3:
                        ctx.zero_direction("row-permutation", float(E[i]), tol[kb][i], msg)
                    else:
                        sig = "rowperm:MGDA-tie" if st[i] == 2 else f"rowperm:{cfg['name']}"
                        ctx.viol.append(dict(sig=sig, cls=sig, msg=msg[:700]))
        for arr, loose in ((maxr, False), (maxl, True)):
            for i in np.nonzero(seen_l if loose else seen_t)[0]:
                lab = "rowperm:MGDA(argmin tie, loose bound)" if loose else f"rowperm:{K.cfg_label(cfgs[i])}"
                v = float(arr[i])
                if v > ctx.maxima.get(lab, -1.0):
                    ctx.maxima[lab] = v
                ctx.margin = max(ctx.margin, v if math.isfinite(v) else 1e300)


def run_direct(J, cfgs, ctx, part=0, parts=1):
    m, n = J.shape
    pred = Pred(J)
    perms = list(itertools.permutations(range(m)))
    perms = [p for i, p in enumerate(perms) if i % parts == part]
    ident = tuple(range(m))
    for cfg in cfgs:
        base = ctx.call(cfg, J)
        if base is None or not base_record(ctx, cfg, J, pred, base):
            continue
        for p in perms:
            if p == ident:
                continue
            J2 = J[list(p)]
            cfg2 = K.permute_rows_cfg(cfg, p)
            out = ctx.call(cfg2, J2)
            if out is None:
                continue
            moved = bool(np.any(J2 != J)) or K.cfg_key(cfg2) != K.cfg_key(cfg)
            compare(ctx, cfg, pred, J, p, base, out[0], moved)


def run_case(case):
    ctx = Ctx()
    kind = case["kind"]
    if kind == "orbit":
        run_orbit(case, ctx)
    elif kind == "near":
        J = A.near_cases()[case["i"]]
        run_direct(J, configs(J.shape[0], J.shape[1], case["aggs"], case["ulevel"], closed=False), ctx)
    elif kind == "dense":
        J = dense_matrix(case["seed"], case["m"], case["n"], case["k"])
        run_direct(J, configs(case["m"], case["n"], case["aggs"], case["ulevel"], closed=False), ctx, case["part"], case["parts"])
    elif kind == "special":
        run_special(case, ctx)
    else:
        raise ValueError(kind)
    return ctx.result()


def run_special(case, ctx):
    """Families added after seeded changes were missed (DESIGN 7.4)."""
    import itertools
    import math

    import numpy as np
    import torch
    from torchjd import aggregation as T

    what = case["what"]
    if what == "imtlg-tall-integer":
        # IMTL-G on ALL {-1,0,1,2} 4x2 matrices without a zero row: the Gramian is singular (4 rows, rank <= 2) and exactly
        # representable; all 24 row permutations. (A factorisation-based solve instead of the pseudo-inverse depends on the
        # row order here, and only on integer matrices of this size.)
        agg = T.IMTLG()
        for idx in range(case["lo"], case["hi"]):
            J = A.ternary_index(4, 2, idx, entries=(-1, 0, 1, 2))
            rows = [tuple(r) for r in J.tolist()]
            if rows != sorted(rows):
                continue  # one representative per row-permutation orbit: all 24 permutations of it are compared below
            if not np.abs(J).sum(axis=1).all() or not K.imtlg_wellposed(J) or not K.rank_unambiguous(J):
                ctx.dropped += 1
                continue
            s = A.sigma_max(J)
            ctx.execs += 1
            x = agg(torch.tensor(J, dtype=torch.float64)).numpy()
            for perm in itertools.permutations(range(4)):
                if perm == (0, 1, 2, 3):
                    continue
                ctx.execs += 1
                try:
                    y = agg(torch.tensor(J[list(perm)], dtype=torch.float64)).numpy()
                except Exception as e:
                    ctx.viol.append(dict(sig=f"exception:IMTLG:{type(e).__name__}", msg=f"IMTLG J={J[list(perm)].tolist()}: {e!r}"[:300]))
                    continue
                ctx.compare("special:imtlg-tall-integer", float(np.abs(y - x).max()), 1e-9 * s, "rowperm:IMTLG:tall-integer",
                            lambda: f"IMTLG J={J.tolist()} pi={list(perm)}: A(pi J)={y.tolist()} A(J)={x.tolist()}")
            ctx.nontrivial += 1
            ctx.outcomes.add("it:" + digest(np.round(x, 6).tolist()))
    elif what == "tm-huge-cancel":
        # a sign-flip pair of huge rows (+-1e20: they cancel in a running sum) next to moderate rows: TrimmedMean must trim them and
        # average the moderate ones, whatever the row order (all 120 permutations)
        base = np.array([[1.0, -2.0, 0.5], [0.25, 3.0, -1.0], [-0.75, 1.5, 2.0]])
        for big in (1e20, 1e17, 3e15):
            J = np.vstack([base, big * np.array([[1.0, -1.0, 1.0]]), -big * np.array([[1.0, -1.0, 1.0]])])
            for b_ in (1, 2):
                agg = T.TrimmedMean(b_)
                ctx.execs += 1
                x = agg(torch.tensor(J, dtype=torch.float64)).numpy()
                for perm in itertools.permutations(range(5)):
                    ctx.execs += 1
                    y = agg(torch.tensor(J[list(perm)], dtype=torch.float64)).numpy()
                    ctx.compare("special:tm-huge-cancel", float(np.abs(y - x).max()), 1e-9 * 4.0, "rowperm:TrimmedMean:huge-cancelling-rows",
                                lambda: f"TrimmedMean({b_}) rows {base.tolist()} + (+-{big:g})*(1,-1,1), pi={list(perm)}: {y.tolist()} vs {x.tolist()}")
                ctx.nontrivial += 1
                ctx.outcomes.add(f"tm:{big}:{b_}:" + digest(np.round(x, 9).tolist()))
    elif what == "krum-tall-float32":
        # more than 25 rows (torch.cdist switches formula there), float32, a large common offset; 32 structured permutations (all cyclic
        # shifts, the reversal, even/odd interleaving, ...) - a stated bound, 28! cannot be enumerated
        m, off, n = case["m"], case["offset"], 3
        J = np.array([[off + ((7 * i + 3 * j) % 5) + 0.03125 * i * (j + 1) for j in range(n)] for i in range(m)])
        J32 = torch.tensor(J, dtype=torch.float32).double().numpy()
        perms = [list(range(k, m)) + list(range(k)) for k in range(1, m)] + [list(range(m))[::-1], list(range(0, m, 2)) + list(range(1, m, 2)),
                                                                               list(range(1, m, 2)) + list(range(0, m, 2))[::-1]]
        for f, k in ((0, 1), (2, 1), (2, 3)):
            from mc import refmodels as R_
            scores = sorted(R_.krum_scores(J32, f))
            if scores[k] - scores[k - 1] < 1e-3 * max(1.0, scores[k]):
                ctx.dropped += 1
                continue
            agg = T.Krum(f, k)
            ctx.execs += 1
            x = agg(torch.tensor(J32, dtype=torch.float32)).double().numpy()
            for perm in perms:
                ctx.execs += 1
                y = agg(torch.tensor(J32[perm], dtype=torch.float32)).double().numpy()
                ctx.compare("special:krum-tall-float32", float(np.abs(y - x).max()), 16 * 1.2e-7 * max(1.0, float(np.abs(x).max())), "rowperm:Krum:tall-float32",
                            lambda: f"Krum({f},{k}) float32 {m}x{n} offset {off:g} pi={perm[:6]}...: {y.tolist()} vs {x.tolist()}")
            ctx.nontrivial += 1
            ctx.outcomes.add(f"kt:{m}:{off}:{f}:{k}")
    elif what == "imtlg-stationary":
        # IMTL-G on EXACTLY stationary matrices (1^T G^+ d = 0 in exact arithmetic; entries {-1,0,1}, so exact in both dtypes): the
        # library detects this case and returns the null vector; that decision must not depend on the row order - in float32 as
        # in float64. (The generic families drop ill-posed inputs; an exactly stationary one is not ill-posed, its answer is 0.)
        m, n = case["m"], case["n"]
        for idx in range(3 ** (m * n)):
            J = A.ternary_index(m, n, idx)
            if not np.abs(J).sum(axis=1).all():
                continue
            d = np.linalg.norm(J, axis=1)
            Jn = J / d.max()
            if abs(float((np.linalg.pinv(Jn @ Jn.T) @ (d / d.max())).sum())) > 1e-13:
                continue
            s = A.sigma_max(J)
            for dtype, tol in ((torch.float64, 1e-9), (torch.float32, 1e-4)):
                for sc in (1.0, 3.0, 1e-3):
                    x0 = None
                    for perm in itertools.permutations(range(m)):
                        ctx.execs += 1
                        x = T.IMTLG()(torch.tensor(J[list(perm)] * sc, dtype=dtype)).double().numpy() / sc
                        if x0 is None:
                            x0 = x
                        ctx.compare(f"special:imtlg-stationary:{str(dtype)[6:]}", float(np.abs(x - x0).max()), tol * s, f"rowperm:IMTLG:stationary:{str(dtype)[6:]}",
                                    lambda: f"IMTLG {str(dtype)[6:]} on the exactly stationary J={(J * sc).tolist()} pi={list(perm)}: A(pi J)/{sc}={x.tolist()} vs identity order {x0.tolist()}")
            ctx.nontrivial += 1
            ctx.outcomes.add(f"is:{m}:{n}:{idx}")
    elif what == "buffer-permuted":
        # the rows of ONE pre-allocated buffer are re-ordered in place between the calls (same tensor object, same shape, new
        # content): every row order must give the same vector. (Added after a seeded change: the regularised Gramian memoised on
        # the identity of the matrix tensor - module level, so new instances are affected as well.)
        J = np.array([[1.0, 0.5, -1.0, 2.0, 0.0, 1.0], [-0.5, 2.0, 1.0, 0.25, -1.0, 0.0], [2.0, -1.0, 0.5, 1.0, 1.0, -2.0], [-1.0, -1.0, 0.0, 0.5, 2.0, 1.0]])
        s = A.sigma_max(J)
        pref = np.array([1.0, 2.0, 3.0, 4.0]) / 10
        makers = [("UPGrad", lambda pi: T.UPGrad()), ("UPGrad|p", lambda pi: T.UPGrad(pref_vector=torch.tensor(pref[pi]))), ("DualProj", lambda pi: T.DualProj()),
                  ("DualProj|p", lambda pi: T.DualProj(pref_vector=torch.tensor(pref[pi]))), ("MGDA", lambda pi: T.MGDA()), ("AlignedMTL", lambda pi: T.AlignedMTL()),
                  ("AlignedMTL|p", lambda pi: T.AlignedMTL(pref_vector=torch.tensor(pref[pi]))), ("IMTLG", lambda pi: T.IMTLG()), ("ConFIG", lambda pi: T.ConFIG()),
                  ("ConFIG|p", lambda pi: T.ConFIG(pref_vector=torch.tensor(pref[pi]))), ("CAGrad", lambda pi: T.CAGrad(c=0.5)), ("Mean", lambda pi: T.Mean()),
                  ("TrimmedMean", lambda pi: T.TrimmedMean(1)), ("Krum", lambda pi: T.Krum(0, 2)), ("Constant", lambda pi: T.Constant(torch.tensor(pref[pi])))]
        for name, mk in makers:
            buf = torch.zeros(4, 6, dtype=torch.float64)
            x0 = None
            shared = mk(list(range(4))) if "|p" not in name and name != "Constant" else None  # one instance over all orders when nothing is configured
            for pi in itertools.permutations(range(4)):
                pi = list(pi)
                buf.copy_(torch.tensor(J[pi]))
                ctx.execs += 1
                try:
                    x = (shared if shared is not None else mk(pi))(buf).numpy().copy()
                except Exception as e:
                    ctx.viol.append(dict(sig=f"exception:special:{name}:{type(e).__name__}", msg=f"buffer-permuted {name} pi={pi}: {e!r}"[:300]))
                    break
                if x0 is None:
                    x0 = x
                ctx.compare(f"special:buffer-permuted:{name}", float(np.abs(x - x0).max()), (1e-3 if name == "CAGrad" else 1e-9) * s, f"rowperm:{name}:buffer-permuted",
                            lambda: f"{name}: rows of one buffer re-ordered in place, pi={pi}: {x.tolist()} vs identity order {x0.tolist()}")
            ctx.nontrivial += 1
            ctx.outcomes.add(f"bp:{name}")
    elif what == "config-null-direction-big-pref":
        # unit rows u with 3 u1 + 4 u2 + 5 u3 = 0 and a preference proportional to (3,4,5): there is no conflict-free direction, the
        # result is the null vector for every row order and every MAGNITUDE of the preference vector (the rounding noise of
        # pinv(units) @ pref grows with |pref|: the comparison with zero has to be relative). Added after a seeded change.
        J = np.array([[1.0, 0.0], [0.0, 1.0], [-0.6, -0.8]]) * np.array([2.0, 0.5, 3.0])[:, None]
        base = np.array([3.0, 4.0, 5.0])
        for dtype in (torch.float64, torch.float32):
            for mag in (1.0, 1e3, 1e5, 1e-5):
                for pi in itertools.permutations(range(3)):
                    pi = list(pi)
                    ctx.execs += 1
                    x = T.ConFIG(pref_vector=torch.tensor(base[pi] * mag, dtype=dtype))(torch.tensor(J[pi], dtype=dtype)).double().numpy()
                    ctx.compare("special:config-null-direction", float(np.abs(x).max()), 1e-6, "rowperm:ConFIG:null-direction-big-pref",
                                lambda: f"ConFIG(pref={mag:g}*{base[pi].tolist()}) {str(dtype)[6:]} on rows {J[pi].tolist()} (weighted unit rows sum to zero): {x.tolist()}, expected the null vector as for every other order / magnitude")
                ctx.nontrivial += 1
                ctx.outcomes.add(f"cn:{dtype}:{mag}")
    elif what == "reuse-after-null-row":
        # ONE instance: first a matrix with an exactly null row, then a full-rank matrix under every row permutation; a new instance
        # must give the same results (an aggregator that zeroes cached/default weights in place for null rows would not)
        J0 = np.array([[0.0, 0.0, 0.0, 0.0], [1.0, -1.0, 0.5, 2.0], [0.5, 2.0, -1.0, 0.0]])
        J = np.array([[1.0, 0.5, -1.0, 2.0], [-0.5, 2.0, 1.0, 0.25], [2.0, -1.0, 0.5, 1.0]])
        s = A.sigma_max(J)
        makers = [("ConFIG", lambda: T.ConFIG()), ("UPGrad", lambda: T.UPGrad()), ("DualProj", lambda: T.DualProj()), ("AlignedMTL", lambda: T.AlignedMTL()),
                  ("IMTLG", lambda: T.IMTLG()), ("MGDA", lambda: T.MGDA()), ("Mean", lambda: T.Mean()), ("Sum", lambda: T.Sum()), ("CAGrad", lambda: T.CAGrad(c=0.5)),
                  ("TrimmedMean", lambda: T.TrimmedMean(1)), ("Krum", lambda: T.Krum(0, 1))]
        for name, mk in makers:
            inst = mk()
            try:
                inst(torch.tensor(J0, dtype=torch.float64))
            except Exception:
                pass
            for perm in itertools.permutations(range(3)):
                ctx.execs += 2
                x = inst(torch.tensor(J[list(perm)], dtype=torch.float64)).numpy()
                y = mk()(torch.tensor(J[list(perm)], dtype=torch.float64)).numpy()
                ctx.compare(f"special:reuse-after-null-row:{name}", float(np.abs(x - y).max()), (1e-3 if name == "CAGrad" else 1e-9) * s,
                            f"stateful-after-null-row:{name}", lambda: f"{name}: after a call with a null row, pi={list(perm)} gives {x.tolist()}, a new instance gives {y.tolist()}")
            ctx.nontrivial += 1
            ctx.outcomes.add(f"rn:{name}")
    else:  # native-seed: the SAME instance, torch.manual_seed before every call (no replayed draws): rows permuted together with the leak
        mats = [np.array([[1.0, -2.0, 0.5], [-1.0, 1.0, 2.0], [0.5, 0.5, -1.0]]), np.array([[1.0, 0.0], [-1.0, 1.0], [-0.5, -2.0], [0.25, -1.0]]),
                np.array([[2.0, -1.0], [-1.0, 0.5], [-1.0, -1.0]])]
        J = mats[case["k"]]
        m = J.shape[0]
        s = A.sigma_max(J)
        leak = torch.tensor([(i + 1) / (m + 1) for i in range(m)], dtype=torch.float64)
        for name, agg, leaked in (("GradDrop", T.GradDrop(), None), ("GradDrop|leak", None, leak)):
            for seed_ in range(6):
                inst = {}  # one instance per permuted leak vector, reused across the seeds

                def run(rows):
                    key = tuple(rows)
                    if key not in inst:
                        inst[key] = T.GradDrop() if leaked is None else T.GradDrop(leak=leaked[list(rows)])
                    outs = []
                    for _ in range(2):  # twice: the second call of an instance must behave like the first under the same seed
                        torch.manual_seed(seed_)
                        ctx.execs += 1
                        outs.append(inst[key](torch.tensor(J[list(rows)], dtype=torch.float64)).numpy())
                    return outs

                base = run(range(m))
                if float(np.abs(base[0] - base[1]).max()) > 0:
                    ctx.viol.append(dict(sig=f"seed-not-honoured-on-reuse:{name}", msg=f"{name} J={J.tolist()} manual_seed({seed_}) twice on one instance: {base[0].tolist()} vs {base[1].tolist()}"))
                    continue
                for perm in itertools.permutations(range(m)):
                    got = run(perm)
                    for g in got:
                        ctx.compare(f"special:native-seed:{name}", float(np.abs(g - base[0]).max()), 1e-9 * s, f"rowperm:{name}:native-seed",
                                    lambda: f"{name} J={J.tolist()} pi={list(perm)} manual_seed({seed_}): {g.tolist()} vs {base[0].tolist()}")
            ctx.nontrivial += 1
            ctx.outcomes.add(f"ns:{name}:{case['k']}")
