"""C15 — each building-block transform computes its specified linear map, for all shapes (DESIGN §3 C15).

E-enum. Every execution applies ONE real transform (or a composition of two) of torchjd.autojac._transform to a
dictionary and compares the returned dictionary with a NumPy reference:
  layout   Init, Diagonalize (every key order), Stack's `_stack` (every presence pattern of every key in 1..3 members),
           Aggregate (every key order, m in 1..3, recorded united matrix and returned vector) on every assignment of
           1..3 keys to shapes {(), (1,), (2,), (1,2), (2,1,2), (1,2,1,2)}  (258 assignments);
  diff     Grad and Jac on programs of the universe of mc/programs.py instantiated on those shapes; reference = the
           independent forward-mode interpreter (RefRun.jacobian); cotangents = every one-hot basis element and one
           generic combination; Jac for m in 1..3 and chunk in {None,1,2,m+1}; Jac row k == Grad of row k;
  chain    Jac(H->I) << Jac(O->H) (and Grad<<Grad) through a cut set H of intermediate values == end to end;
  stackgrad Stack([Grad([o_j], I_j) << Select({o_j}, O)]) (the mtl_backward pattern) with every choice of I_j.
"""
from __future__ import annotations

import itertools
import math

import numpy as np

from mc import programs as P
from mc.runner import digest

SPEC = dict(
    property_id="C15",
    level="exploration",
    rule=(
        "case = block of (shape assignment) or (program, outputs) items; execution = one application of a real transform compared with "
        "the NumPy reference; non-trivial = executions in which the layout is observable: >= 2 keys/inputs (so that offsets and slice "
        "order matter) or >= 2 rows (so that row order matters)"
    ),
    bound=dict(
        quick="layout: all 258 assignments of 1..3 keys to 6 shapes (0-d..4-d, size-1 dims), every key order, every presence pattern for "
              "Stack (<= 3 members), m in 1..3; diff: every program with 1 op (all 13 ops) on the 83 assignments up to renaming of the "
              "leaves (non-decreasing shape tuples; operand orders and input listing orders are enumerated anyway), programs with 2 ops "
              "(ops sin, mul, sum, idx0, detach) on 4 scenario assignments (three with 3-d/4-d keys), all <= 2 output tensors in both orders, plus 1-op programs with a leaf as one of two outputs; chain: programs with 2 "
              "ops whose first result is a cut set; stackgrad: 2-op 2-output programs (ops mul, sum) on 2 scenarios (one 4-d); "
              "cotangent alphabets include the all-zero cotangent; Jac over a vmap-hostile Function with one-row chunks; non-contiguous (column-major) keys",
        thorough="1-op programs on all 258 ordered assignments; diff/chain with all 13 ops at depth 2 on the 7 scenarios; chain additionally with 3 ops (ops sin, mul, sum, unbind); "
                 "stackgrad with ops mul, sum, sin on 3 scenarios",
    ),
    assumptions=[
        "ops limited to the grammar of mc/programs.py (its NumPy dual-number interpreter is shape-generic; forward values are cross-checked "
        "with torch on every program, disagreement = harness error)",
        "cotangents: the one-hot basis and one generic combination; linearity of the reference makes the basis exhaustive",
        "float64 (tolerance 1e-12 x scale) and float32 (2e-5 x scale) with scale = max(1, r * max|C| * max|J|); layout transforms are compared bit-exactly",
        "graphs are retained between executions (retain_graph=True) except for the last Jac of every program",
    ],
    exhaustive=True,
)

ALPHA = ((), (1,), (2,), (1, 2), (2, 1, 2), (1, 2, 1, 2))
SCENARIOS = (
    ((2,), (2,), ()),
    ((2, 2), (2,), (1,)),
    ((), (), ()),
    ((2, 1, 2), (1, 2), ()),
    ((1, 2, 1, 2), (2,), (1,)),
    ((2, 1, 2), (1, 2, 1, 2), (2, 2)),
    ((1,), (1, 2), (2,)),
)
QUICK_SCENARIOS = (SCENARIOS[0],) + SCENARIOS[3:6]
OPS_Q2 = ("sin", "mul", "sum", "idx0", "detach")
OPS_STACK = ("mul", "sum", "sin")
OPS_CH3 = ("sin", "mul", "sum", "unbind")
TOL64, TOL32 = 1e-12, 2e-5


def assignments():
    out = []
    for p in (1, 2, 3):
        out.extend(itertools.product(ALPHA, repeat=p))
    return out


def _numel(s):
    n = 1
    for x in s:
        n *= x
    return n


# ----------------------------------------------------------------------------- case generation
def _cut_ok(t, H, O):
    """Every grad path from O to a leaf passes through H, O depends on H, and H is an antichain."""
    Hs = set(H)

    def reach(v, seen):
        if v in seen or not t.req[v]:
            return set()
        seen.add(v)
        if v in Hs:
            return {("h", v)}
        if t.producer[v] is None:
            return {("l", v)}
        r = set()
        for a in t.operands[v]:
            r |= reach(a, seen)
        return r

    hit = set()
    for o in O:
        if o in Hs:
            return False
        r = reach(o, set())
        if any(k == "l" for k, _ in r):
            return False
        hit |= r
    if not hit:
        return False
    for h in H:
        if any(a in Hs for a in t.ancestors(h)):
            return False
    return True


def _chain_items(shapes, depth, ops):
    items = []
    req = (1,) * len(shapes)
    for prog in P.enum_programs(shapes, req, depth, ops=ops):
        t = P.Typed(prog)
        nl = t.nleaves
        first = [v for v in range(nl, t.nvalues) if t.producer[v] == 0 and t.req[v]]
        if not first:
            continue
        Hs = [first]
        if depth == 3:
            second = [v for v in range(nl, t.nvalues) if t.producer[v] == 1 and t.req[v]]
            if second:
                Hs.append(first + second)
        later = [v for v in range(nl, t.nvalues) if t.req[v]]
        nops = len(prog["ops"])
        for H in Hs:
            cand = [v for v in later if v not in H]
            for r in (1, 2):
                for O in itertools.combinations(cand, r):
                    if len(t.live_ops(list(O))) == nops and _cut_ok(t, H, list(O)):
                        items.append(("chain", prog, list(O), H))
    return items


def gen_cases(tier, seed):
    cases = []
    asg = assignments()
    for lo in range(0, len(asg), 2):
        cases.append(dict(kind="layout", shapes=[list(map(list, a)) for a in asg[lo:lo + 2]], seed=seed))
    # diff, 1 op, all assignments
    for a in (asg if tier == "thorough" else [a for a in asg if list(a) == sorted(a, key=ALPHA.index)]):
        items = [("diff", prog, outs) for prog, outs in P.enum_program_outputs(a, (1,) * len(a), 1, max_outputs=2, both_orders=True)]
        for lo in range(0, len(items), 12):
            cases.append(dict(kind="progs", items=items[lo:lo + 12], seed=seed))
    ops2 = OPS_Q2 if tier == "quick" else P.UNARY + P.BINARY
    items = []
    # an output that is itself an input leaf (identity block in the Jacobian), 1-op programs on the scenarios
    for sc in (QUICK_SCENARIOS if tier == "quick" else SCENARIOS):
        for prog, outs in P.enum_program_outputs(sc, (1, 1, 1), 1, max_outputs=2, both_orders=True, leaf_outputs=True):
            items.append(("diff", prog, outs))
    for sc in (QUICK_SCENARIOS if tier == "quick" else SCENARIOS):
        for prog, outs in P.enum_program_outputs(sc, (1, 1, 1), 2, max_outputs=2, ops=ops2, both_orders=True):
            items.append(("diff", prog, outs))
        items.extend(_chain_items(sc, 2, ops2))
        if tier == "thorough":
            items.extend(_chain_items(sc, 3, OPS_CH3))
    for sc in (SCENARIOS[:1] + SCENARIOS[3:4] if tier == "quick" else SCENARIOS[:1] + SCENARIOS[3:5]):
        for prog, outs in P.enum_program_outputs(sc, (1, 1, 1), 2, max_outputs=2, ops=OPS_STACK[:2] if tier == "quick" else OPS_STACK,
                                                 both_orders=False):
            if len(outs) == 2:
                items.append(("stackgrad", prog, outs))
    blk = 10
    for lo in range(0, len(items), blk):
        cases.append(dict(kind="progs", items=items[lo:lo + blk], seed=seed))
    # graphs that torch.vmap cannot differentiate: one-row chunks and one-row batches must still equal Grad row by row
    for nout in (1, 2):
        cases.append(dict(kind="novmap", nout=nout, seed=seed))
    # batches of 300 cotangent rows (beyond any internal row cap) and inputs with zero elements (shapes (0,), (2,0), (0,3,1))
    cases.append(dict(kind="tall-and-empty", seed=seed))
    return cases


# ----------------------------------------------------------------------------- bookkeeping
class Acc:
    def __init__(self):
        self.viol, self.outcomes, self.execs, self.nontrivial = [], set(), 0, 0
        self.maxima, self.c = {}, {}

    def v(self, sig, msg, cls=None):
        if len(self.viol) < 30:
            self.viol.append(dict(sig=sig, cls=cls or sig, msg=msg[:800]))

    def m(self, oracle, ratio):
        if ratio > self.maxima.get(oracle, -1.0):
            self.maxima[oracle] = min(float(ratio), 1e9)

    def count(self, k, n=1):
        self.c[k] = self.c.get(k, 0) + n

    def result(self):
        return dict(viol=self.viol, execs=self.execs, outcomes=sorted(self.outcomes), nontrivial=self.nontrivial,
                    margin=max(self.maxima.values(), default=0.0), maxima=self.maxima, counters=self.c)


def _np(x):
    return x.detach().double().numpy()


def _values(shape, k, seed):
    """Generic pairwise distinct non-zero values (deterministic)."""
    n = _numel(shape)
    idx = np.arange(n, dtype=np.float64)
    v = (0.4 + 0.37 * idx + 1.3 * k + 0.11 * (seed % 8)) * np.where((idx.astype(int) + k) % 3 == 0, -1.0, 1.0)
    return v.reshape(shape)


def _call(acc, what, fn):
    """Runs the real code; a library exception on valid input is a violation."""
    acc.execs += 1
    try:
        return fn()
    except Exception as e:
        acc.v(f"exception:{what.split()[0]}:{type(e).__name__}", f"{what}: {e!r}")
        return None


def _check_dict(acc, what, res, cls, expected, tol, oracle, scale=1.0):
    """res: returned TensorDict; expected: list of (key tensor, numpy array). Exact when tol == 0."""
    if type(res) is not cls:
        acc.v(f"{oracle}:result-type", f"{what}: returned {type(res).__name__}, expected {cls.__name__}")
        return False
    if len(res) != len(expected) or any(k not in res for k, _ in expected):
        acc.v(f"{oracle}:result-keys", f"{what}: returned {len(res)} keys, expected {len(expected)}")
        return False
    ok = True
    for i, (k, e) in enumerate(expected):
        g = res[k]
        if tuple(g.shape) != tuple(e.shape):
            acc.v(f"{oracle}:shape", f"{what}: key #{i} shape {tuple(g.shape)}, expected {tuple(e.shape)}")
            return False
        if g.dtype != k.dtype:
            acc.v(f"{oracle}:dtype", f"{what}: key #{i} dtype {g.dtype}, key dtype {k.dtype}")
            return False
        err = float(np.abs(_np(g) - e).max()) if e.size else 0.0
        if tol == 0.0:
            bad = err != 0.0
            acc.m(oracle, 0.0 if not bad else 1e9)
        else:
            bad = not (err <= tol * scale)
            acc.m(oracle, err / (tol * scale))
        if bad:
            ok = False
            acc.v(f"{oracle}:value", f"{what}: key #{i} got {np.round(_np(g), 6).tolist()} expected {np.round(e, 6).tolist()} "
                  f"(err {err:.3g}, tol {tol * scale:.3g})", cls=f"{oracle}:value")
            break
    return ok


# ----------------------------------------------------------------------------- layout transforms
def run_layout(acc, shapes, seed):
    import torch
    from torchjd.aggregation import Constant, Mean, UPGrad
    from torchjd.autojac._transform import Aggregate, Diagonalize, EmptyTensorDict, Gradients, Init, Jacobians, Select, Stack
    from torchjd.autojac._transform.stack import _stack

    from mc.seams import RecordingAggregator

    p = len(shapes)
    sdesc = f"shapes={shapes}"
    keys = [torch.tensor(_values(s, 7 + i, seed), dtype=torch.float64) for i, s in enumerate(shapes)]
    # about half of the keys with >= 2 dimensions are dense but NOT contiguous (reversed strides, same values): a slice must be reshaped
    # to the key's SHAPE, whatever the key's memory layout is
    tot = sum(len(s) for s in shapes)
    for i, k in enumerate(keys):
        if k.dim() >= 2 and (i + tot) % 2 == 0:
            perm = list(range(k.dim()))[::-1]
            keys[i] = k.permute(perm).contiguous().permute(perm)
    nt = 1 if p >= 2 else 0

    # ---- Init
    for dt in (torch.float64, torch.float32):
        ks = [k.to(dt) for k in keys]
        res = _call(acc, f"Init {sdesc} {dt}", lambda: Init(ks)(EmptyTensorDict()))
        if res is not None:
            _check_dict(acc, f"Init {sdesc} {dt}", res, Gradients, [(k, np.ones(s)) for k, s in zip(ks, shapes)], 0.0, "init")
    acc.outcomes.add(digest(["init", shapes]))

    # ---- Diagonalize: every order of the keys
    g = [_values(s, i, seed) for i, s in enumerate(shapes)]
    grads = Gradients({k: torch.tensor(v) for k, v in zip(keys, g)})
    n = sum(_numel(s) for s in shapes)
    for order in itertools.permutations(range(p)):
        exp, off = {}, 0
        for i in order:
            ni = _numel(shapes[i])
            e = np.zeros((n, ni))
            e[off:off + ni, :] = np.diag(g[i].reshape(-1))
            exp[i] = e.reshape((n,) + tuple(shapes[i]))
            off += ni
        what = f"Diagonalize {sdesc} order={order}"
        res = _call(acc, what, lambda: Diagonalize([keys[i] for i in order])(grads))
        if res is not None:
            _check_dict(acc, what, res, Jacobians, [(keys[i], exp[i]) for i in range(p)], 0.0, "diagonalize")
            acc.nontrivial += nt
            acc.outcomes.add(digest(["diag", shapes, order]))

    # ---- Select: every subset; the values are the very objects of the input
    for mask in range(2 ** p):
        sub = [i for i in range(p) if mask >> i & 1]
        what = f"Select {sdesc} keys={sub}"
        res = _call(acc, what, lambda: Select([keys[i] for i in sub], keys)(grads))
        if res is not None and (type(res) is not Gradients or len(res) != len(sub) or any(res.get(keys[i]) is not grads[keys[i]] for i in sub)):
            acc.v("select:content", f"{what}: returned {type(res).__name__} with {len(res)} keys / other value objects")

    # ---- Stack: every presence pattern of every key in 1..3 members (values differ per member)
    for nm in (1, 2, 3):
        for pattern in itertools.product(range(2 ** p), repeat=nm):
            members, raw = [], []
            for j, mask in enumerate(pattern):
                d = {i: _values(shapes[i], 3 * j + i + 1, seed) for i in range(p) if mask >> i & 1}
                raw.append(d)
                members.append(Gradients({keys[i]: torch.tensor(v) for i, v in d.items()}))
            present = [i for i in range(p) if any(mask >> i & 1 for mask in pattern)]
            exp = [(keys[i], np.stack([raw[j].get(i, np.zeros(shapes[i])) for j in range(nm)])) for i in present]
            what = f"_stack {sdesc} presence={pattern}"
            res = _call(acc, what, lambda: _stack(members))
            if res is not None:
                _check_dict(acc, what, res, Jacobians, exp, 0.0, "stack")
                if nm >= 2:
                    acc.nontrivial += 1
            if nm <= 2:  # the Stack class itself, with Select members (rows of one key then coincide; zero rows and keys are checked)
                full = Gradients({keys[i]: torch.tensor(g[i]) for i in range(p)})
                sel = [Select([keys[i] for i in range(p) if mask >> i & 1], keys) for mask in pattern]
                exp2 = [(keys[i], np.stack([g[i] if mask >> i & 1 else np.zeros(shapes[i]) for mask in pattern])) for i in present]
                what = f"Stack[Select..] {sdesc} presence={pattern}"
                res = _call(acc, what, lambda: Stack(sel)(full))
                if res is not None:
                    _check_dict(acc, what, res, Jacobians, exp2, 0.0, "stack")
        acc.outcomes.add(digest(["stack", shapes, nm]))

    # ---- Aggregate: every key order, m rows, recorded united matrix / returned vector
    W = [1.0, -2.0, 3.0]
    for oi, order in enumerate(itertools.permutations(range(p))):
        for m in (1, 2, 3):
            jac = [np.stack([_values(s, 5 * r + i, seed) for r in range(m)]) for i, s in enumerate(shapes)]
            ins = list(range(p)) if (oi + m) % 2 else list(range(p))[::-1]  # insertion order of the input dictionary
            united = np.hstack([jac[i].reshape(m, -1) for i in order])
            for aname in ("const", "upgrad", "mean"):
                inner = (Constant(torch.tensor(W[:m], dtype=torch.float64)) if aname == "const" else UPGrad() if aname == "upgrad" else Mean())
                rec = RecordingAggregator(inner)
                what = f"Aggregate {sdesc} key_order={order} m={m} {aname}"
                d = Jacobians({keys[i]: torch.tensor(jac[i]) for i in ins})
                res = _call(acc, what, lambda: Aggregate(rec, [keys[i] for i in order])(d))
                if res is None:
                    continue
                if len(rec.calls) != 1:
                    acc.v("aggregate:call-count", f"{what}: aggregator called {len(rec.calls)} times")
                    continue
                M, x = rec.calls[0]
                if tuple(M.shape) != united.shape or float(np.abs(_np(M) - united).max()) != 0.0:
                    acc.v("aggregate:united-matrix", f"{what}: aggregator received {_np(M).tolist()} expected {united.tolist()}",
                          cls="aggregate:united-matrix")
                    continue
                acc.m("aggregate-united", 0.0)
                xs, off, exp = _np(x), 0, {}
                for i in order:
                    ni = _numel(shapes[i])
                    exp[i] = xs[off:off + ni].reshape(shapes[i])
                    off += ni
                ok = _check_dict(acc, what, res, Gradients, [(keys[i], exp[i]) for i in range(p)], 0.0, "aggregate-slices")
                if ok and aname == "const":
                    ref = np.array(W[:m]) @ united
                    sc = max(1.0, float(np.abs(united).max()) * 6.0)
                    err = float(np.abs(xs - ref).max())
                    acc.m("aggregate-constant-value", err / (TOL64 * sc))
                    if not (err <= TOL64 * sc):  # NaN-safe
                        acc.v("aggregate:constant-value", f"{what}: got {xs.tolist()} expected {ref.tolist()}")
                acc.nontrivial += nt
        acc.outcomes.add(digest(["aggregate", shapes, order]))
    # key count 0: the VJP of no cotangent is the zero vector. (Grad used to return torch.empty(...), i.e. uninitialised memory,
    # there - fixed in /repo, see known_findings.json; correct code always passes, the old code failed whenever the garbage was non-zero.)
    from torchjd.autojac._transform import Grad

    junk = [torch.full_like(k, 7.0) for k in keys]
    del junk
    res = _call(acc, "Grad no outputs", lambda: Grad([], [k.clone().requires_grad_() for k in keys])(Gradients({})))
    if res is not None:
        acc.count("grad_no_outputs_probes")
        if any(not bool((v == 0).all()) for v in res.values()):
            acc.count("grad_no_outputs_returned_nonzero_garbage")
            acc.v("grad:no-outputs-not-zero", f"Grad([], inputs) returned non-zero values for key shapes {shapes}: the gradient of nothing is zero")
    # no key at all: the aggregator is not called, the result is empty
    rec = RecordingAggregator(Mean())
    res = _call(acc, "Aggregate no keys", lambda: Aggregate(rec, [])(Jacobians({})))
    if res is not None and (len(res) != 0 or rec.calls):
        acc.v("aggregate:empty", f"Aggregate with no key returned {len(res)} keys, aggregator calls {len(rec.calls)}")


# ----------------------------------------------------------------------------- differentiation
def _cotangents(r, seed):
    basis = [np.eye(r)[j] for j in range(r)]
    gen = np.array([(0.7 + 0.45 * j + 0.1 * (seed % 8)) * (-1.0 if j % 2 else 1.0) for j in range(r)])
    # the all-zero cotangent (a loss that does not depend on the differentiated tensors at all): linearity demands exact zeros, also
    # when a chunk holds nothing else
    return basis + [np.zeros(r)] + [gen]


def _split(t, outs, vec, lead=()):
    """Cotangent vector(s) -> one array per output tensor. vec has shape lead + (r,)."""
    res, off = [], 0
    for o in outs:
        n = t.numel(o)
        res.append(vec[..., off:off + n].reshape(tuple(lead) + tuple(t.shapes[o])))
        off += n
    return res


def _setup(acc, prog, outs_all, seed, dtype="float64"):
    t = P.Typed(prog)
    lv = P.leaf_values(t.shapes[: t.nleaves], seed)
    ref = P.RefRun(prog, lv)
    vals = P.build_torch(prog, lv, dtype)
    if not P.forward_agrees(vals, ref, dtype):
        raise RuntimeError("harness: reference forward values disagree with torch: " + P.prog_str(prog, outs_all))
    return t, ref, vals


def run_diff(acc, prog, outs, seed):
    import torch
    from torchjd.autojac._transform import Diagonalize, EmptyTensorDict, Grad, Gradients, Init, Jac, Jacobians

    t, ref, vals = _setup(acc, prog, outs, seed)
    desc = P.prog_str(prog, outs)
    leaves = [i for i in range(t.nleaves) if t.req[i]]
    r = sum(t.numel(o) for o in outs)
    J = {l: ref.jacobian(outs, [l]) for l in leaves}
    jmax = max([1.0] + [float(np.abs(J[l]).max()) for l in leaves if J[l].size])
    cots = _cotangents(r, seed)
    perms = list(itertools.permutations(leaves))
    O = [vals[o] for o in outs]
    T = lambda a: torch.tensor(np.array(a), dtype=torch.float64)  # noqa: E731
    reach = {l: bool(np.any(J[l] != 0.0)) for l in leaves}
    multi = len(leaves) >= 2

    def check_zero(what, res, listing):
        for l in listing:
            if not reach[l] and res is not None and vals[l] in res and float(res[vals[l]].abs().max()) != 0.0:
                acc.v("unreachable-input-not-zero", f"{what}: leaf {l} does not influence the outputs, got {_np(res[vals[l]]).tolist()}")

    # ---- Grad: every basis cotangent and the generic one (inputs in rotating orders), generic x every subset of inputs
    grad_rows = {}
    jobs = [(ci, list(perms[ci % len(perms)])) for ci in range(len(cots))]
    for rr in range(1, len(leaves)):
        for sub in itertools.combinations(leaves, rr):
            jobs.append((len(cots) - 1, list(sub)))
    jobs.append((len(cots) - 1, []))
    for ci, listing in jobs:
        c = cots[ci]
        what = f"Grad {desc} inputs={listing} cot#{ci}"
        d = Gradients({o: T(x) for o, x in zip(O, _split(t, outs, c))})
        res = _call(acc, what, lambda: Grad(O, [vals[l] for l in listing], retain_graph=True)(d))
        if res is None:
            continue
        scale = max(1.0, r * float(np.abs(c).max()) * jmax)
        ok = _check_dict(acc, what, res, Gradients, [(vals[l], (c @ J[l]).reshape(t.shapes[l])) for l in listing], TOL64, "grad", scale)
        check_zero(what, res, listing)
        if ok and len(listing) == len(leaves) and ci not in grad_rows:
            grad_rows[ci] = {l: _np(res[vals[l]]) for l in leaves}
        if multi and len(listing) >= 2:
            acc.nontrivial += 1
        acc.outcomes.add(digest(["grad", [np.round(_np(res[vals[l]]), 6).tolist() for l in listing]]) if ok else "grad-bad")

    # ---- Jac: m rows, every chunk size, batches covering every cotangent
    # every (m, chunk) configuration; the batches of a configuration cover every cotangent when the chunking differs from the
    # one of an earlier configuration with the same m (None, 1, and 2 for m = 3), otherwise one batch (same code path, other argument)
    n = len(cots)
    cfgs = [(m, ch) for m in (1, 2, 3) for ch in sorted({1, 2, m + 1}) + [None]]
    seen_chunking = set()
    for qi, (m, ch) in enumerate(cfgs):
        k = m if ch is None else ch
        chunking = (m, tuple(min(k, m - s) for s in range(0, m, k)))
        starts = list(range(0, n, m)) if chunking not in seen_chunking else [0]
        seen_chunking.add(chunking)
        for bi, s in enumerate(starts):
            rows = [(s + qi + j) % n for j in range(m)]
            C = np.stack([cots[j] for j in rows])
            listing = list(perms[(qi + bi) % len(perms)])
            last = qi == len(cfgs) - 1 and bi == len(starts) - 1
            what = f"Jac {desc} inputs={listing} m={m} chunk={ch} rows={rows}"
            d = Jacobians({o: T(x) for o, x in zip(O, _split(t, outs, C, (m,)))})
            res = _call(acc, what, lambda: Jac(O, [vals[l] for l in listing], ch, retain_graph=not last)(d))
            if res is None:
                continue
            scale = max(1.0, r * float(np.abs(C).max()) * jmax)
            ok = _check_dict(acc, what, res, Jacobians, [(vals[l], (C @ J[l]).reshape((m,) + tuple(t.shapes[l]))) for l in listing],
                             TOL64, "jac", scale)
            check_zero(what, res, listing)
            if ok:  # Jac == Grad stacked row by row (both real executions)
                for k, j in enumerate(rows):
                    if j in grad_rows:
                        for l in listing:
                            e = float(np.abs(_np(res[vals[l]])[k] - grad_rows[j][l]).max()) if grad_rows[j][l].size else 0.0
                            acc.m("jac-rows-vs-grad", e / (TOL64 * scale))
                            if not (e <= TOL64 * scale):  # NaN-safe
                                acc.v("jac-row-differs-from-grad", f"{what}: row {k} for leaf {l} differs from Grad of cotangent #{j} by {e:.3g}")
            if m >= 2 or multi:
                acc.nontrivial += 1
            acc.outcomes.add(digest(["jac", m, [np.round(_np(res[vals[l]]), 6).tolist() for l in sorted(listing)]]) if ok else "jac-bad")

    # ---- the backward pipeline Jac << Diagonalize << Init: one row per output scalar, in the order of the outputs
    _, _, vp = _setup(acc, prog, outs, seed)
    Op = [vp[o] for o in outs]
    for ch in (None, 1):
        what = f"Jac<<Diagonalize<<Init {desc} chunk={ch}"
        res = _call(acc, what, lambda: (Jac(Op, [vp[l] for l in leaves], ch, retain_graph=ch is None) << Diagonalize(Op) << Init(Op))(EmptyTensorDict()))
        if res is not None:
            _check_dict(acc, what, res, Jacobians, [(vp[l], J[l].reshape((r,) + tuple(t.shapes[l]))) for l in leaves], TOL64, "pipeline",
                        max(1.0, jmax))

    # ---- float32
    t32, ref32, v32 = _setup(acc, prog, outs, seed, "float32")
    O32 = [v32[o] for o in outs]
    C = np.stack([cots[-1], cots[0]])
    d = Jacobians({o: torch.tensor(np.array(x), dtype=torch.float32) for o, x in zip(O32, _split(t, outs, C, (2,)))})
    what = f"Jac float32 {desc} m=2 chunk=None"
    res = _call(acc, what, lambda: Jac(O32, [v32[l] for l in leaves], None)(d))
    if res is not None:
        scale = max(1.0, r * float(np.abs(C).max()) * jmax)
        _check_dict(acc, what, res, Jacobians, [(v32[l], (C @ J[l]).reshape((2,) + tuple(t.shapes[l]))) for l in leaves], TOL32, "jac-float32", scale)


def run_chain(acc, prog, outs, H, seed):
    import torch
    from torchjd.autojac._transform import Grad, Gradients, Jac, Jacobians

    t, ref, vals = _setup(acc, prog, outs, seed)
    desc = P.prog_str(prog, outs) + f" through H={H}"
    leaves = [i for i in range(t.nleaves) if t.req[i]]
    r = sum(t.numel(o) for o in outs)
    J = {l: ref.jacobian(outs, [l]) for l in leaves}
    jmax = max([1.0] + [float(np.abs(J[l]).max()) for l in leaves if J[l].size])
    cots = _cotangents(r, seed)
    O, Ht, I = [vals[o] for o in outs], [vals[h] for h in H], [vals[l] for l in leaves]
    T = lambda a: torch.tensor(np.array(a), dtype=torch.float64)  # noqa: E731
    n = len(cots)
    for ci, c in enumerate(cots):
        what = f"Grad<<Grad {desc} cot#{ci}"
        d = Gradients({o: T(x) for o, x in zip(O, _split(t, outs, c))})
        res = _call(acc, what, lambda: (Grad(Ht[::-1] if ci % 2 else Ht, I, retain_graph=True) << Grad(O, Ht, retain_graph=True))(d))
        if res is not None:
            scale = max(1.0, r * float(np.abs(c).max()) * jmax * 4)
            ok = _check_dict(acc, what, res, Gradients, [(vals[l], (c @ J[l]).reshape(t.shapes[l])) for l in leaves], TOL64, "chain-grad", scale)
            acc.nontrivial += 1
            acc.outcomes.add(digest(["cg", [np.round(_np(res[vals[l]]), 6).tolist() for l in leaves]]) if ok else "cg-bad")
    qi = 0
    for m in (1, 2, 3):
        for c1 in (None, 1, 2):
            for c2 in (None, 1, 2):
                qi += 1
                rows = [(qi + j) % n for j in range(m)]
                C = np.stack([cots[j] for j in rows])
                what = f"Jac<<Jac {desc} m={m} chunks=({c1},{c2}) rows={rows}"
                d = Jacobians({o: T(x) for o, x in zip(O, _split(t, outs, C, (m,)))})
                res = _call(acc, what, lambda: (Jac(Ht, I[::-1] if qi % 2 else I, c2, retain_graph=True) << Jac(O, Ht, c1, retain_graph=True))(d))
                if res is None:
                    continue
                scale = max(1.0, r * float(np.abs(C).max()) * jmax * 4)
                ok = _check_dict(acc, what, res, Jacobians, [(vals[l], (C @ J[l]).reshape((m,) + tuple(t.shapes[l]))) for l in leaves],
                                 TOL64, "chain-jac", scale)
                acc.nontrivial += 1
                acc.outcomes.add(digest(["cj", m, [np.round(_np(res[vals[l]]), 6).tolist() for l in leaves]]) if ok else "cj-bad")


def run_stackgrad(acc, prog, outs, seed):
    import torch
    from torchjd.autojac._transform import Grad, Gradients, Jacobians, Select, Stack

    t, ref, vals = _setup(acc, prog, outs, seed)
    desc = P.prog_str(prog, outs)
    leaves = [i for i in range(t.nleaves) if t.req[i]]
    Jo = {(o, l): ref.jacobian([o], [l]) for o in outs for l in leaves}
    jmax = max([1.0] + [float(np.abs(v).max()) for v in Jo.values() if v.size])
    r = sum(t.numel(o) for o in outs)
    c = _cotangents(r, seed)[-1]
    parts = dict(zip(outs, _split(t, outs, c)))
    O = [vals[o] for o in outs]
    d = Gradients({vals[o]: torch.tensor(np.array(parts[o]), dtype=torch.float64) for o in outs})
    subsets = [list(s) for rr in range(len(leaves) + 1) for s in itertools.combinations(leaves, rr)]
    thin = [[], leaves, leaves[:1]]
    for nm in (1, 2, 3):
        choices = [(o, s) for o in outs for s in (subsets if nm <= 2 else thin)]
        for members in itertools.product(choices, repeat=nm):
            what = f"Stack[Grad<<Select] {desc} members={members}"
            trs = [Grad([vals[o]], [vals[l] for l in s], retain_graph=True) << Select([vals[o]], O) for o, s in members]
            res = _call(acc, what, lambda: Stack(trs)(d))
            if res is None:
                continue
            present = [l for l in leaves if any(l in s for _, s in members)]
            exp = []
            for l in present:
                rowsl = [(parts[o].reshape(-1) @ Jo[(o, l)]).reshape(t.shapes[l]) if l in s else np.zeros(t.shapes[l]) for o, s in members]
                exp.append((vals[l], np.stack(rowsl)))
            scale = max(1.0, r * float(np.abs(c).max()) * jmax)
            _check_dict(acc, what, res, Jacobians, exp, TOL64, "stack-of-grads", scale)
            if nm >= 2:
                acc.nontrivial += 1
        acc.outcomes.add(digest(["sg", desc, nm]))


def run_novmap(acc, nout, seed):
    """Jac over a graph containing a Function whose backward cannot be vmapped. 'Jac equals stacking Grad row by row' must hold
    whenever every chunk has one row (chunk size 1, or a one-row batch with any chunk size): those are differentiated one at a
    time. (Added after a seeded change that decided between vmap and a plain call once, from the total number of rows.)"""
    import torch
    from torchjd.autojac._transform import Grad, Gradients, Jac, Jacobians

    from mc.seams import NoVmapIdentity

    def build():
        a = torch.tensor([0.7, -1.3, 2.1], dtype=torch.float64, requires_grad=True)
        b = torch.tensor(1.5 + 0.1 * (seed % 5), dtype=torch.float64, requires_grad=True)
        h = NoVmapIdentity.apply(a * b)
        W = torch.tensor([[1.0, -2.0, 0.5], [0.0, 3.0, 1.0], [2.0, 1.0, -1.0], [-1.0, 0.5, 4.0]], dtype=torch.float64)
        y = W @ h
        outs = [y] if nout == 1 else [y[:1] * 1.0, y[1:] * 1.0]
        return a, b, outs, W

    a, b, outs, W = build()
    Ja = (W * float(b)).numpy()          # d y / d a
    Jb = (W @ a.detach()).numpy()        # d y / d b
    cots = np.concatenate([np.eye(4), np.array([[0.5, -1.5, 2.0, 1.0]])])
    split = (lambda c: [c[..., :4]]) if nout == 1 else (lambda c: [c[..., :1], c[..., 1:]])
    T = lambda x: torch.tensor(np.array(x), dtype=torch.float64)  # noqa: E731
    grad_rows = []
    for ci, c in enumerate(cots):
        what = f"Grad novmap nout={nout} cot#{ci}"
        res = _call(acc, what, lambda: Grad(outs, [a, b], retain_graph=True)(Gradients({o: T(x) for o, x in zip(outs, split(c))})))
        if res is None:
            grad_rows.append(None)
            continue
        _check_dict(acc, what, res, Gradients, [(a, c @ Ja), (b, np.asarray(c @ Jb))], TOL64, "grad", 20.0)
        grad_rows.append((_np(res[a]), _np(res[b])))
    for m in (1, 2, 3, 5):
        for ch in ((None, 1, 2, 7) if m == 1 else (1,)):
            for s0 in range(len(cots)):
                rows = [(s0 + j) % len(cots) for j in range(m)]
                C = np.stack([cots[j] for j in rows])
                what = f"Jac novmap nout={nout} m={m} chunk={ch} rows={rows}"
                d = Jacobians({o: T(x) for o, x in zip(outs, split(C))})
                res = _call(acc, what, lambda: Jac(outs, [b, a] if s0 % 2 else [a, b], ch, retain_graph=True)(d))
                acc.count("novmap_jac")
                if res is None:
                    continue
                ok = _check_dict(acc, what, res, Jacobians, [(a, C @ Ja), (b, C @ Jb)], TOL64, "jac", 20.0)
                if ok:
                    for k, j in enumerate(rows):
                        if grad_rows[j] is not None:
                            e = max(float(np.abs(_np(res[a])[k] - grad_rows[j][0]).max()), float(np.abs(_np(res[b])[k] - grad_rows[j][1]).max()))
                            if not (e <= TOL64 * 20.0):
                                acc.v("jac-row-differs-from-grad", f"{what}: row {k} differs from Grad of cotangent #{j} by {e:.3g}")
                acc.nontrivial += 1
                acc.outcomes.add(digest(["nv", nout, m, ch, rows]) if ok else "nv-bad")


def run_tall_and_empty(acc, seed):
    """(a) Jac with 300 rows in one chunk / chunks of 299, 257, 256, 100 on a graph with saved tensors, retain_graph False and True;
    (b) Grad and Jac w.r.t. inputs without elements: the result has shape (m,) + input.shape. (Added after seeded changes: vmap capped
    at 256 rows - the last chunk then ran twice with the caller's flag; a row count inferred with view(-1, ...).)"""
    import torch
    from torchjd.autojac._transform import Grad, Gradients, Jac, Jacobians

    m = 300
    for ch in (None, 299, 257, 256, 100):
        for rg in (False, True):
            a = torch.linspace(-1.0, 2.0, 5, dtype=torch.float64).requires_grad_()
            b = torch.tensor(1.5, dtype=torch.float64, requires_grad=True)
            y = torch.sin(a) * a * b  # saved tensors
            C = np.array([[math.sin(0.37 * i + 0.9 * j) for j in range(5)] for i in range(m)])
            C[7] = 0.0
            what = f"Jac tall m={m} chunk={ch} retain_graph={rg}"
            res = _call(acc, what, lambda: Jac([y], [a, b], ch, retain_graph=rg)(Jacobians({y: torch.tensor(C, dtype=torch.float64)})))
            if res is None:
                continue
            av, bv = a.detach().numpy(), float(b)
            dya = (np.cos(av) * av + np.sin(av)) * bv
            dyb = np.sin(av) * av
            _check_dict(acc, what, res, Jacobians, [(a, C * dya[None, :]), (b, C @ dyb)], TOL64, "jac", 10.0)
            acc.nontrivial += 1
            acc.outcomes.add(f"tall:{ch}:{rg}")
    for shape in ((0,), (2, 0), (0, 3, 1)):
        a = torch.tensor([0.7, -1.3, 2.1], dtype=torch.float64, requires_grad=True)
        e = torch.zeros(shape, dtype=torch.float64, requires_grad=True)
        y = torch.sin(a) * 2.0 + e.sum()
        dya = np.diag(np.cos(a.detach().numpy()) * 2.0)
        c = np.array([0.5, -1.5, 2.0])
        what = f"Grad empty-input shape={shape}"
        res = _call(acc, what, lambda: Grad([y], [e, a], retain_graph=True)(Gradients({y: torch.tensor(c)})))
        if res is not None:
            _check_dict(acc, what, res, Gradients, [(e, np.zeros(shape)), (a, c @ dya)], TOL64, "grad", 10.0)
        for mm in (1, 2, 3):
            for ch in (None, 1, 2):
                C = np.stack([c * (k + 1) for k in range(mm)])
                what = f"Jac empty-input shape={shape} m={mm} chunk={ch}"
                res = _call(acc, what, lambda: Jac([y], [a, e], ch, retain_graph=True)(Jacobians({y: torch.tensor(C)})))
                if res is not None:
                    _check_dict(acc, what, res, Jacobians, [(a, C @ dya), (e, np.zeros((mm,) + tuple(shape)))], TOL64, "jac", 10.0)
                acc.nontrivial += 1
                acc.outcomes.add(f"empty:{shape}:{mm}:{ch}")


def run_case(case):
    acc = Acc()
    seed = case["seed"]
    if case["kind"] == "tall-and-empty":
        run_tall_and_empty(acc, seed)
    elif case["kind"] == "novmap":
        run_novmap(acc, case["nout"], seed)
    elif case["kind"] == "layout":
        for shapes in case["shapes"]:
            run_layout(acc, [tuple(s) for s in shapes], seed)
    else:
        for it in case["items"]:
            if it[0] == "diff":
                run_diff(acc, it[1], it[2], seed)
            elif it[0] == "chain":
                run_chain(acc, it[1], it[2], it[3], seed)
            else:
                run_stackgrad(acc, it[1], it[2], seed)
    return acc.result()
