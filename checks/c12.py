"""C12 — default parameter discovery finds exactly the leaves that matter (DESIGN §3 C12).

E-enum over autograd DAGs built from topology-relevant ops; a purely syntactic model computes the default
sets (leaves with a grad-requiring, non-detached path; for mtl_backward: leaves of the features, and per loss
the leaves reachable without traversing a feature NODE). The defaulted call on one graph and the explicit call
with the model's sets on a twin graph must leave identical .grad (values and None-ness) on every leaf, or both
be rejected (overlapping default sets => ValueError).
"""
from __future__ import annotations

import itertools

import numpy as np

from mc import programs as P
from mc.runner import digest

SPEC = dict(
    property_id="C12",
    level="model_checking",
    rule=(
        "case = block of (DAG, outputs) or (DAG, feature picks, loss picks); each evaluation runs the defaulted call and the explicit "
        "call with the syntactic model's parameter sets on twin graphs; non-trivial = distinct evaluations in which the default set is a "
        "strict subset of the grad-requiring leaves or the default sets overlap (so that discovery, not 'take everything', is observable)"
    ),
    bound=dict(
        quick="DAGs with <= 3 ops (backward; scenario S1 both flag scenarios, outputs <= 2) and <= 2 ops (mtl_backward: every pick of 1..2 "
              "features and 1..2 ordered losses such that every op is live; scenarios S1, S3); scalar arithmetic DAGs with 3 ops; hand-built graphs: "
              "fused TorchScript / Python Function nodes, features that are views of a non-leaf base (5 view kinds x 3 consumers), a Function context holding a foreign leaf, complex leaves",
        thorough="mtl_backward additionally on DAGs with 3 ops (1 feature, 1..2 losses), scenarios S1 and S3, both flag scenarios",
    ),
    assumptions=[
        "ops limited to {sum, x[0], detach, unbind, add, mul, stack}; node identity = op application (siblings of a multi-output op share a node)",
        "one scenario has a leaf with zero elements; mtl_backward is also called with one parameter list explicit and the other defaulted",
        "no in-place ops, no retain_grad()",
    ],
)

OPS = ("sum", "idx0", "detach", "unbind", "add", "mul", "stack")
BLOCK = 40


def model_leaves(t, roots, excluded=frozenset()):
    """Syntactic model of the default discovery: grad-requiring leaves reachable from ``roots`` through
    grad-requiring values without entering an op application in ``excluded``."""
    res, seen, stack = set(), set(), list(roots)
    while stack:
        v = stack.pop()
        if v in seen:
            continue
        seen.add(v)
        if not t.req[v]:
            continue
        k = t.producer[v]
        if k is None:
            res.add(v)
            continue
        if k in excluded:
            continue
        stack.extend(t.operands[v])
    return res


def _mtl_combos(t, maxf, maxl):
    nonleaf = [v for v in range(t.nleaves, t.nvalues) if t.req[v]]
    scal = [v for v in nonleaf if t.shapes[v] == ()]
    nops = len(t.prog["ops"])
    for nf in range(1, maxf + 1):
        for F in itertools.combinations(nonleaf, nf):
            for nl in range(1, maxl + 1):
                for L in itertools.permutations(scal, nl):
                    if len(t.live_ops(list(F) + list(L))) == nops:
                        yield list(F), list(L)


S0 = ((2,), (0,), ())  # a leaf with zero elements (e.g. an optional block of width 0)
ARITH = ("add", "mul")


def gen_cases(tier, seed):
    items = []
    for depth in (1, 2):
        for prog, outs in P.enum_program_outputs(S0, (1, 1, 1), depth, ops=OPS, both_orders=False):
            items.append(("bw", prog, outs, None))
    # scalar arithmetic DAGs with 3 ops in BOTH tiers (1 feature, 1 loss): the smallest family in which a head-side node can be
    # created before the feature node and be combined with it afterwards
    for flags in ("all", "L1off"):
        for prog in P.enum_programs(P.SHAPE_SCENARIOS["S3"], P.FLAG_SCENARIOS[flags], 3, ops=ARITH):
            t = P.Typed(prog)
            for F, L in _mtl_combos(t, 1, 1):
                items.append(("mtl", prog, F, L))
    for flags in ("all", "L1off"):
        for depth in (1, 2, 3):
            for prog, outs in P.enum_program_outputs(P.SHAPE_SCENARIOS["S1"], P.FLAG_SCENARIOS[flags], depth, ops=OPS, both_orders=False):
                items.append(("bw", prog, outs, None))
    for scen in ("S1", "S3"):
        for flags in ("all", "L1off"):
            for depth in ((1, 2) if tier == "quick" else (1, 2, 3)):
                for prog in P.enum_programs(P.SHAPE_SCENARIOS[scen], P.FLAG_SCENARIOS[flags], depth, ops=OPS):
                    t = P.Typed(prog)
                    for F, L in _mtl_combos(t, 2 if depth <= 2 else 1, 2):
                        items.append(("mtl", prog, F, L))
    cases = []
    for lo in range(0, len(items), BLOCK):
        cases.append(dict(items=items[lo:lo + BLOCK], seed=seed))
    # hand-built graphs outside the op grammar (added after seeded changes were missed): autograd nodes that are not instances of
    # torch.autograd.graph.Node's registered classes (a fused TorchScript block, a Python Function) strictly inside the graph; features
    # that are VIEWS of a non-leaf tensor while a loss consumes the base or another view of it (the default sets then overlap)
    cases.append(dict(items=[], special="foreign-nodes", seed=seed))
    cases.append(dict(items=[], special="view-features", seed=seed))
    cases.append(dict(items=[], special="odd-leaves", seed=seed))
    return cases


def _grads(vals, t):
    return [None if vals[i].grad is None else vals[i].grad.detach().numpy().copy() for i in range(t.nleaves)]


def _same(ga, gb):
    for x, y in zip(ga, gb):
        if (x is None) != (y is None):
            return False
        if x is not None and (x.shape != y.shape or (x.size and not (float(np.abs(x - y).max()) <= 1e-12 * max(1.0, float(np.abs(y).max()))))):
            return False
    return True


def _try(fn):
    try:
        fn()
        return None
    except Exception as e:
        return e


_SCRIPTED = {}


def _scripted_block():
    """A TorchScript function, warmed up so that the profiling executor has specialised it: its backward is then ONE fused C++ node."""
    import torch

    if "f" not in _SCRIPTED:
        @torch.jit.script
        def block(x: torch.Tensor, w: torch.Tensor, b: torch.Tensor) -> torch.Tensor:
            return torch.tanh(x * w + b) * b

        for _ in range(4):
            w = torch.tensor([0.5, -1.0, 2.0], dtype=torch.float64, requires_grad=True)
            b = torch.tensor([1.5, 0.3, -0.7], dtype=torch.float64, requires_grad=True)
            block(torch.tensor([0.2, 0.4, 0.6], dtype=torch.float64), w, b).sum().backward()
        _SCRIPTED["f"] = block
    return _SCRIPTED["f"]


def _run_special(case):
    import torch
    from torchjd import backward, mtl_backward
    from torchjd.aggregation import Constant

    from mc.seams import NoVmapIdentity

    T = lambda v: torch.tensor(v, dtype=torch.float64, requires_grad=True)  # noqa: E731
    viol, outcomes, execs = [], set(), 0
    agg = lambda m: Constant(torch.tensor([3.0, -2.0, 5.0][:m], dtype=torch.float64))  # noqa: E731

    def grads(ps):
        return [None if p.grad is None else p.grad.detach().clone() for p in ps]

    def same(ga, gb):
        return all((x is None) == (y is None) and (x is None or float((x - y).abs().max()) <= 1e-12 * max(1.0, float(y.abs().max()))) for x, y in zip(ga, gb))

    if case["special"] == "foreign-nodes":
        for variant in ("torchscript", "python-function", "torchscript-root"):
            def build():
                w, b, u, p1, p2 = T([0.5, -1.0, 2.0]), T([1.5, 0.3, -0.7]), T([0.1, 0.2, 0.3]), T([1.0, 2.0, 3.0]), T([-1.0, 0.5, 2.0])
                x = torch.tensor([0.2, 0.4, 0.6], dtype=torch.float64)
                if variant == "python-function":
                    h = NoVmapIdentity.apply(torch.tanh(x * w + b) * b)
                else:
                    h = _scripted_block()(x, w, b)
                f = h if variant == "torchscript-root" else torch.relu(h + u) * 2.0  # the foreign node strictly inside the graph of the features
                extra = [] if variant == "torchscript-root" else [u]
                return dict(trunk=[w, b] + extra, heads=[[p1], [p2]], f=f, losses=[(f * p1).sum(), (f * f * p2).sum()])

            for ep in ("bw", "mtl", "mtl-default-tasks"):
                A, B = build(), build()
                allA, allB = A["trunk"] + [p for h in A["heads"] for p in h], B["trunk"] + [p for h in B["heads"] for p in h]
                execs += 2
                try:
                    if ep == "bw":
                        backward(A["losses"], agg(2), parallel_chunk_size=1)
                        backward(B["losses"], agg(2), inputs=allB, parallel_chunk_size=1)
                    elif ep == "mtl":
                        mtl_backward(A["losses"], A["f"], agg(2), tasks_params=A["heads"], parallel_chunk_size=1)
                        mtl_backward(B["losses"], B["f"], agg(2), tasks_params=B["heads"], shared_params=B["trunk"], parallel_chunk_size=1)
                    else:
                        mtl_backward(A["losses"], A["f"], agg(2), parallel_chunk_size=1)
                        mtl_backward(B["losses"], B["f"], agg(2), tasks_params=B["heads"], shared_params=B["trunk"], parallel_chunk_size=1)
                except Exception as e:
                    viol.append(dict(sig=f"exception:special:{type(e).__name__}", msg=f"foreign-nodes {variant} {ep}: {e!r}"[:400]))
                    continue
                ga, gb = grads(allA), grads(allB)
                outcomes.add(f"fn:{variant}:{ep}:{[g is None for g in ga]}")
                if not same(ga, gb):
                    viol.append(dict(sig=f"default-vs-explicit-grads:foreign-node:{ep}", cls=f"foreign:{variant}:{ep}",
                                     msg=f"graph with a {variant} node, {ep}: defaulted call leaves .grad {[None if g is None else g.tolist() for g in ga]}, "
                                         f"the call with the explicit leaves {[None if g is None else g.tolist() for g in gb]}"[:900]))
        return dict(viol=viol, execs=execs, outcomes=sorted(outcomes), nontrivial=len(outcomes))

    if case["special"] == "odd-leaves":
        # (a) a Python Function whose context keeps an attribute called `variable` holding a leaf that is NOT an input of the node:
        # only AccumulateGrad nodes designate leaves; (b) complex leaves (they require grad like any floating point tensor)
        class _ScaleByHeld(torch.autograd.Function):
            @staticmethod
            def forward(ctx, x, holder):
                ctx.variable = holder["t"]
                return x * holder["t"].detach()

            @staticmethod
            def backward(ctx, g):
                return g * ctx.variable.detach(), None

        def build(kind):
            if kind == "ctx-variable":
                x, held, p = T([1.0, 2.0]), T(3.0), T([0.5, -1.0])
                y = _ScaleByHeld.apply(x * p, {"t": held})
                return dict(all=[x, held, p], model=[x, p], f=y, trunk=[x, p], losses=[y.sum(), (y * y).sum()])
            cdt = torch.complex128
            w = torch.tensor([1.0, -2.0, 0.5], dtype=torch.float64)
            c = torch.tensor([1.0 + 1.0j, 2.0 - 0.5j, -1.0j], dtype=cdt, requires_grad=True)
            d = torch.tensor([0.5j, 1.0 + 0.0j, 2.0 - 1.0j], dtype=cdt, requires_grad=True)
            z = torch.fft.ifft(torch.fft.fft(w) * c) + d
            return dict(all=[c, d], model=[c, d], f=z, trunk=[c, d], losses=[z.real.pow(2).sum(), z.abs().sum()])

        from torchjd.aggregation import Mean

        for kind in ("ctx-variable", "complex"):
            for ep in ("bw", "mtl-default-shared"):
                if kind == "complex" and ep != "bw":
                    continue  # complex features: real/complex mixes are outside what the library supports today (observed), not asserted
                A, B = build(kind), build(kind)
                execs += 2
                try:
                    if ep == "bw":
                        backward(A["losses"], Mean())
                        backward(B["losses"], Mean(), inputs=B["model"])
                    else:
                        mtl_backward(A["losses"], A["f"], Mean(), tasks_params=[[], []])
                        mtl_backward(B["losses"], B["f"], Mean(), tasks_params=[[], []], shared_params=B["trunk"])
                except Exception as e:
                    viol.append(dict(sig=f"exception:special:{type(e).__name__}", msg=f"odd-leaves {kind} {ep}: {e!r}"[:400]))
                    continue
                ga, gb = grads(A["all"]), grads(B["all"])
                outcomes.add(f"ol:{kind}:{ep}:{[g is None for g in ga]}")
                if not same(ga, gb):
                    viol.append(dict(sig=f"default-vs-explicit-grads:odd-leaves:{kind}", cls=f"oddleaves:{kind}:{ep}",
                                     msg=f"{kind}, {ep}: defaulted call leaves .grad {[None if g is None else g.tolist() for g in ga]}, "
                                         f"the call with the explicit leaves {[None if g is None else g.tolist() for g in gb]}"[:900]))
        return dict(viol=viol, execs=execs, outcomes=sorted(outcomes), nontrivial=len(outcomes))

    # view-features
    views = {"flatten": lambda h: h.flatten(), "t": lambda h: h.t(), "row": lambda h: h[0], "view": lambda h: h.view(4), "unsqueeze": lambda h: h.unsqueeze(0),
             "identity(no view)": lambda h: h * 1.0}
    for vname, view in views.items():
        for consumer in ("base", "other-view", "feature-only"):
            for tasks_mode in ("default", "explicit"):
                a, b, p1, p2 = T([[0.5, -1.0], [2.0, 1.5]]), T(0.7), T(1.3), T(-0.4)
                h = torch.sin(a) * b  # non-leaf base
                f = view(h)
                l1 = (f * p1).sum()
                if consumer == "base":
                    l2 = h.sum() * p2
                elif consumer == "other-view":
                    l2 = h.reshape(-1)[1:].sum() * p2
                else:
                    l2 = (f * f).sum() * p2
                # model: loss 2 reaches a and b without passing through the feature tensor unless it consumes the feature itself
                overlap = consumer != "feature-only"
                execs += 1
                pre = grads([a, b, p1, p2])
                try:
                    if tasks_mode == "default":
                        mtl_backward([l1, l2], f, agg(2))
                    else:
                        mtl_backward([l1, l2], f, agg(2), tasks_params=[[p1], [p2, a, b] if overlap else [p2]], shared_params=[a, b])
                    err = None
                except Exception as e:
                    err = e
                where = f"features = {vname} of a non-leaf base, loss 2 consumes {consumer}, tasks_params {tasks_mode}"
                outcomes.add(f"vf:{vname}:{consumer}:{tasks_mode}:{type(err).__name__}")
                if overlap:
                    if not isinstance(err, ValueError):
                        viol.append(dict(sig=f"overlapping-defaults-not-rejected:view-features:{tasks_mode}", cls=f"viewfeat:{vname}:{consumer}:{tasks_mode}",
                                         msg=f"{where}: loss 2 reaches the shared leaves without passing through the feature tensor, the sets overlap; got {err!r}"[:500]))
                    elif not same(grads([a, b, p1, p2]), pre) or any(g is not None for g in grads([a, b, p1, p2])):
                        viol.append(dict(sig="rejected-call-modified-grad:view-features", msg=where))
                elif err is not None:
                    viol.append(dict(sig=f"exception:special:{type(err).__name__}", msg=f"{where}: {err!r}"[:400]))
                elif any(g is None for g in grads([a, b, p1, p2])):
                    viol.append(dict(sig="default-vs-explicit-grads:view-features", msg=f"{where}: .grad missing {[g is None for g in grads([a, b, p1, p2])]}"))
    return dict(viol=viol, execs=execs, outcomes=sorted(outcomes), nontrivial=len(outcomes))


def run_case(case):
    import torch
    from torchjd import backward, mtl_backward
    from torchjd.aggregation import Constant

    if case.get("special"):
        return _run_special(case)
    viol, outcomes, execs, nontriv = [], set(), 0, 0
    W = [1.0, -2.0, 3.0, 5.0, -7.0, 11.0, 13.0, -17.0]
    for kind, prog, X, L in case["items"]:
        t = P.Typed(prog)
        lv = P.leaf_values(t.shapes[: t.nleaves], case["seed"])
        A, B = P.build_torch(prog, lv), P.build_torch(prog, lv)
        grad_leaves = {i for i in range(t.nleaves) if t.req[i]}
        if kind == "bw":
            outs = X
            m = sum(t.numel(o) for o in outs)
            model = sorted(model_leaves(t, outs))
            agg = lambda: Constant(torch.tensor(W[:m], dtype=torch.float64))  # noqa: E731
            # a single output is passed as a bare tensor (Sequence[Tensor] | Tensor)
            ta = A[outs[0]] if len(outs) == 1 else [A[o] for o in outs]
            tb = B[outs[0]] if len(outs) == 1 else [B[o] for o in outs]
            ea = _try(lambda: backward(ta, agg()))
            eb = _try(lambda: backward(tb, agg(), inputs=[B[l] for l in model]))
            execs += 2
            where = f"backward {P.prog_str(prog, outs)} | model inputs={model}"
            if set(model) != grad_leaves:
                nontriv += 1
        else:
            F = X
            excluded = frozenset(t.producer[f] for f in F)
            shared = sorted(model_leaves(t, F))
            tasks = [sorted(model_leaves(t, [l], excluded)) for l in L]
            overlap = bool(set(shared) & set().union(*map(set, tasks)))
            agg = lambda: Constant(torch.tensor(W[:len(L)], dtype=torch.float64))  # noqa: E731
            ea = _try(lambda: mtl_backward([A[l] for l in L], [A[f] for f in F], agg()))
            eb = _try(lambda: mtl_backward([B[l] for l in L], [B[f] for f in F], agg(), tasks_params=[[B[p] for p in tp] for tp in tasks],
                                           shared_params=[B[p] for p in shared]))
            execs += 2
            # mixed forms: one of the two lists explicit (the model's), the other defaulted - must behave as the all-explicit call
            C = P.build_torch(prog, lv)
            mixed = "shared-explicit" if (len(prog["ops"]) + len(F) + len(L) + F[0]) % 2 == 0 else "tasks-explicit"
            if mixed == "shared-explicit":
                ec = _try(lambda: mtl_backward([C[l] for l in L], [C[f] for f in F], agg(), shared_params=[C[p] for p in shared]))
            else:
                ec = _try(lambda: mtl_backward([C[l] for l in L], [C[f] for f in F], agg(), tasks_params=[[C[p] for p in tp] for tp in tasks]))
            execs += 1
            if overlap:
                if not isinstance(ec, ValueError):
                    viol.append(dict(sig=f"overlapping-defaults-not-rejected:{mixed}", msg=f"mtl_backward {P.prog_str(prog)} features={F} losses={L} | model "
                                     f"shared={shared} tasks={tasks}: {mixed} call gave {type(ec).__name__ if ec else 'no exception'}"))
                    continue
            elif (ec is None) != (eb is None) or (ec is None and not _same(_grads(C, t), _grads(B, t))):
                viol.append(dict(sig=f"mixed-default-vs-explicit:{mixed}", cls=f"mixed:{mixed}",
                                 msg=f"mtl_backward {P.prog_str(prog)} features={F} losses={L} | model shared={shared} tasks={tasks}: {mixed} -> {ec!r} "
                                     f"{[None if g is None else g.tolist() for g in _grads(C, t)]} vs explicit {eb!r} {[None if g is None else g.tolist() for g in _grads(B, t)]}"[:900]))
                continue
            where = f"mtl_backward {P.prog_str(prog)} features={F} losses={L} | model shared={shared} tasks={tasks}"
            if overlap or (set(shared) | set().union(*map(set, tasks))) != grad_leaves:
                nontriv += 1
            if overlap:
                if not isinstance(ea, ValueError):
                    viol.append(dict(sig="overlapping-defaults-not-rejected", msg=f"{where}: defaulted call gave {type(ea).__name__ if ea else 'no exception'}"))
                    continue
                outcomes.add(digest(["overlap", shared, tasks]))
                continue
        if (ea is None) != (eb is None):
            viol.append(dict(sig=f"default-vs-explicit-outcome:{kind}", cls=f"outcome:{kind}:{type(ea).__name__ if ea else 'ok'}",
                             msg=f"{where}: defaulted -> {ea!r}, explicit -> {eb!r}"[:700]))
            continue
        if ea is not None:
            outcomes.add(digest(["both-raise", type(ea).__name__]))
            continue
        ga, gb = _grads(A, t), _grads(B, t)
        if not _same(ga, gb):
            viol.append(dict(sig=f"default-vs-explicit-grads:{kind}", cls=f"grads:{kind}",
                             msg=f"{where}: defaulted .grad {[None if g is None else g.tolist() for g in ga]} explicit {[None if g is None else g.tolist() for g in gb]}"[:900]))
            continue
        outcomes.add(digest([kind, [g is None for g in ga]]))
    return dict(viol=viol, execs=execs, outcomes=sorted(outcomes), nontrivial=nontriv)
