"""C20 — a call rejected for its arguments changes nothing (DESIGN §3 C20).

Fault enumeration: every kind of invalid argument the property lists, at every position of the argument
lists (and, for backward, under every set-iteration order through the seam), combined with every valid
remainder over a fixed family of programs and pre-existing .grad in {None, non-zero}. Oracle: an exception
is raised and the (is None, bytes, object identity, version) snapshot of every leaf's .grad is unchanged.
"""
from __future__ import annotations

import itertools

import numpy as np

from mc.runner import digest

SPEC = dict(
    property_id="C20",
    level="fault_enumeration",
    rule=(
        "case = (entry point, program, valid remainder, fault kind, fault position, set-iteration order, chunk size, "
        "pre-existing .grad pattern); one faulty call of the real backward()/mtl_backward() per case; non-trivial = "
        "distinct cases in which at least one valid parameter WOULD receive a gradient if the offending argument were "
        "removed (so that a partial write is possible at all)"
    ),
    bound=dict(
        quick="4 backward programs x all non-empty valid-input subsets x every fault position x all set orders (<=3 inputs); "
              "mtl trunk/heads with 1..3 tasks, 1..2 features; every fault kind of the statement (non-scalar losses with two elements and with ONE element of shapes (1,), (1,1); parameters frozen after the forward pass; generator containers)",
        thorough="same as quick (the space is small enough to be enumerated completely in the quick tier)",
    ),
    assumptions=[
        "programs limited to the hand-written family in this file; <= 3 valid inputs per call",
        "aggregator rejection is asserted for backward only (as the statement says)",
        "graphs without retain_grad() tensors",
    ],
)

DETERMINISM_SLICE = 16


# ----------------------------------------------------------------------------- programs
def _bw_program(k, pre_mask):
    """Returns dict(valid=[leaves], outs=[tensors], nonleaf=tensor, nograd=leaf, all=[leaves])."""
    import torch

    a = torch.tensor([1.0, -2.0], dtype=torch.float64, requires_grad=True)
    b = torch.tensor([0.5, 3.0], dtype=torch.float64, requires_grad=True)
    c = torch.tensor(1.5, dtype=torch.float64, requires_grad=True)
    n = torch.tensor([2.0, 7.0], dtype=torch.float64)  # leaf not requiring grad
    if k == 0:
        h = a * b
        outs = [(h * c + n).sum(), (a + b).sum() * c]
    elif k == 1:
        h = (a * c).sin()
        outs = [h * b, (h.sum() + n.sum()) * c]
    elif k == 2:
        h = a + b * n
        outs = [torch.stack([h.sum(), (h * h).sum() * c, c * c])]
    elif k == 4:  # ONE 0-d output: a one-row Jacobian (the aggregator still decides whether it accepts it)
        h = a * b
        outs = [(h * c + n).sum() * c]
    else:
        h = b * c
        outs = [h[0] * a.sum(), h[1] + a[0] * n[0], (h * a).sum()]
    leaves = [a, b, c]
    for i, l in enumerate(leaves + [n]):
        if pre_mask[i % len(pre_mask)]:
            l.grad = torch.full_like(l, 0.25 * (i + 1))
    return dict(valid=leaves, outs=outs, nonleaf=h, nograd=n, all=leaves + [n])


def _mtl_program(ntasks, nfeat, pre_mask):
    import torch

    s0 = torch.tensor([1.0, -2.0], dtype=torch.float64, requires_grad=True)
    s1 = torch.tensor(0.75, dtype=torch.float64, requires_grad=True)
    p = [torch.tensor([0.5, 3.0], dtype=torch.float64, requires_grad=True),
         torch.tensor(1.5, dtype=torch.float64, requires_grad=True),
         torch.tensor([2.0, -1.0], dtype=torch.float64, requires_grad=True)]
    n = torch.tensor(4.0, dtype=torch.float64)  # leaf not requiring grad
    hs = s0 * 2.0  # non-leaf on the shared side
    f0 = hs * s1
    f1 = (s0.sum() * s1).reshape(1)
    feats = [f0, f1][:nfeat]
    fsum = sum(f.sum() for f in feats)
    q = p[1] * 2.0  # non-leaf on the task side
    losses = [(f0 * p[0]).sum(), fsum * q * n, (f0 * p[2]).sum() * fsum][:ntasks]
    tparams = [[p[0]], [p[1]], [p[2]]][:ntasks]
    leaves = [s0, s1] + p
    for i, l in enumerate(leaves + [n]):
        if pre_mask[i % len(pre_mask)]:
            l.grad = torch.full_like(l, 0.25 * (i + 1))
    return dict(shared=[s0, s1], feats=feats, losses=losses, tparams=tparams, p=p, q=q, hs=hs, nograd=n, all=leaves + [n])


def _snapshot(tensors):
    snap = []
    for t in tensors:
        g = t.grad
        snap.append(None if g is None else (id(g), g._version, g.detach().numpy().tobytes(), tuple(g.shape)))
    return snap


PRE_MASKS = [(0,), (1,), (1, 0)]


def _chunk(spec):
    """JSON-able chunk size specification -> the value passed to the library."""
    if not isinstance(spec, str):
        return spec
    import torch

    return {"np.int64(0)": np.int64(0), "np.int32(-1)": np.int32(-1), "tensor(0)": torch.tensor(0)}[spec]


# ----------------------------------------------------------------------------- case generation
def gen_cases(tier, seed):
    cases = []
    # ---- backward
    for k in range(5):
        for pm in range(len(PRE_MASKS)):
            base = dict(ep="bw", prog=k, pre=pm)
            for chunk in (0, -1, "np.int64(0)", "np.int32(-1)", "tensor(0)"):
                for sub in ([0], [0, 1, 2]):
                    cases.append(dict(base, fault="chunk", chunk=chunk, valid=sub))
            cases.append(dict(base, fault="empty-tensors", valid=[0, 1, 2]))
            cases.append(dict(base, fault="empty-tensors", valid=None))
            for sub in ([0, 1, 2], None):
                cases.append(dict(base, fault="dup-tensor", valid=sub, chunk=None))
                cases.append(dict(base, fault="dup-tensor", valid=sub, chunk=1))
            # offending parameter at every position of every valid remainder, every set-iteration order
            for r in range(0, 3):
                for sub in itertools.combinations(range(3), r):
                    for kind in ("nonleaf", "nograd"):
                        for pos in range(r + 1):
                            for order in itertools.permutations(range(r + 1)):
                                for chunk in ((None, 1) if r == 2 else (None,)):
                                    for cont in ("list", "gen"):  # inputs is an Iterable: one-shot iterators too
                                        cases.append(dict(base, fault="bad-input", kind=kind, valid=list(sub), pos=pos,
                                                          order=list(order), chunk=chunk, cont=cont))
            for which in range(3):  # a leaf frozen (requires_grad_(False)) AFTER the forward pass, inputs left to their default
                for chunk in (None, 1):
                    cases.append(dict(base, fault="frozen-default", which=which, valid=None, chunk=chunk))
            for agg in ("const-short", "const-long", "krum", "tm", "raises", "wrong-length"):
                for sub in ([0], [1, 2], [0, 1, 2], None):
                    for chunk in (None, 1):
                        cases.append(dict(base, fault="agg-reject", agg=agg, valid=sub, chunk=chunk))
    # ---- mtl_backward
    for ntasks in (1, 2, 3):
        for nfeat in (1, 2):
            for pm in range(len(PRE_MASKS)):
                base = dict(ep="mtl", ntasks=ntasks, nfeat=nfeat, pre=pm)
                # non-positive chunk sizes also as NumPy integers and as a 0-d integer tensor (added after a seeded change whose check only knew int)
                for chunk in (0, -1, "np.int64(0)", "np.int32(-1)", "tensor(0)"):
                    cases.append(dict(base, fault="chunk", chunk=chunk))
                for explicit in (True, False):
                    b2 = dict(base, explicit=explicit)
                    cases.append(dict(b2, fault="empty-features"))
                    cases.append(dict(b2, fault="empty-losses"))
                    for i in range(ntasks):
                        cases.append(dict(b2, fault="nonscalar-loss", idx=i))
                        # a ONE-element loss that is not 0-d (shapes (1,) and (1,1)): "non-scalar" is about the rank, not the size
                        cases.append(dict(b2, fault="nonscalar-loss", idx=i, shape1=[1]))
                        cases.append(dict(b2, fault="nonscalar-loss", idx=i, shape1=[1, 1]))
                    cases.append(dict(b2, fault="dup-feature"))
                for d in (+1, -1):
                    for where in ("losses", "tparams"):
                        cases.append(dict(base, fault="count-mismatch", delta=d, where=where))
                for i in range(ntasks):
                    for sp in range(2):
                        for pos in range(2):
                            cases.append(dict(base, fault="overlap", task=i, shared_idx=sp, pos=pos))
                for chunk in (None, 1):
                    # a parameter frozen AFTER the forward pass, discovered through the defaults
                    for which in ["s0", "s1"] + [f"p{i}" for i in range(ntasks)]:
                        for defaults in ("both", "tasks", "shared"):
                            cases.append(dict(base, fault="frozen-default", which=which, defaults=defaults, chunk=chunk))
                    for pos in range(3):
                        cases.append(dict(base, fault="dup-shared", pos=pos, chunk=chunk))
                    for i in range(ntasks):
                        cases.append(dict(base, fault="dup-taskparam", task=i, chunk=chunk))
                    for kind in ("nonleaf", "nograd"):
                        for cont in ("list", "gen"):
                            for pos in range(3):
                                cases.append(dict(base, fault="bad-shared", kind=kind, pos=pos, chunk=chunk, cont=cont))
                            for i in range(ntasks):
                                for pos in range(2):
                                    cases.append(dict(base, fault="bad-taskparam", kind=kind, task=i, pos=pos, chunk=chunk, cont=cont))
                            cases.append(dict(base, fault="bad-taskparam-only", kind=kind, task=i, chunk=chunk))
    for c in cases:
        c["seed"] = seed
    return cases


# ----------------------------------------------------------------------------- execution
def _run_bw(case):
    import torch
    from torchjd import backward
    from torchjd.aggregation import Constant, Krum, TrimmedMean, UPGrad

    from mc.seams import FnAggregator, SetOrderSeam

    P = _bw_program(case["prog"], PRE_MASKS[case["pre"]])
    outs = P["outs"]
    m = sum(o.numel() for o in outs)
    valid = None if case["valid"] is None else [P["valid"][i] for i in case["valid"]]
    kw = dict(tensors=outs, aggregator=UPGrad(), inputs=valid, parallel_chunk_size=_chunk(case.get("chunk")))
    f = case["fault"]
    rank = None
    would_write = valid is None or len(valid) > 0
    if f == "chunk":
        pass
    elif f == "empty-tensors":
        kw["tensors"] = []
    elif f == "dup-tensor":
        kw["tensors"] = outs + [outs[0]]
    elif f == "bad-input":
        bad = P["nonleaf"] if case["kind"] == "nonleaf" else P["nograd"]
        lst = list(valid)
        lst.insert(case["pos"], bad)
        kw["inputs"] = (t for t in lst) if case.get("cont") == "gen" else lst
        rank = {id(t): case["order"][j] for j, t in enumerate(lst)}
        would_write = len(valid) > 0
    elif f == "frozen-default":
        P["valid"][case["which"]].requires_grad_(False)
    elif f == "agg-reject":
        a = case["agg"]
        if a == "const-short":
            kw["aggregator"] = Constant(torch.ones(m - 1 if m > 1 else m + 1, dtype=torch.float64))
        elif a == "const-long":
            kw["aggregator"] = Constant(torch.ones(m + 1, dtype=torch.float64))
        elif a == "krum":
            kw["aggregator"] = Krum(n_byzantine=m, n_selected=1)
        elif a == "tm":
            kw["aggregator"] = TrimmedMean(trim_number=m)
        elif a == "raises":
            def boom(M):
                raise ValueError("aggregator rejects this Jacobian")
            kw["aggregator"] = FnAggregator(boom)
        elif a == "wrong-length":
            kw["aggregator"] = FnAggregator(lambda M: torch.ones(M.shape[1] + 1, dtype=M.dtype))
    before = _snapshot(P["all"])
    exc = None
    try:
        if rank is not None:
            with SetOrderSeam(lambda x: rank.get(id(x), 99)) as seam:
                backward(**kw)
        else:
            backward(**kw)
    except Exception as e:
        exc = e
    after = _snapshot(P["all"])
    return exc, before, after, would_write


def _run_mtl(case):
    import torch
    from torchjd import mtl_backward
    from torchjd.aggregation import UPGrad

    P = _mtl_program(case["ntasks"], case["nfeat"], PRE_MASKS[case["pre"]])
    nt = case["ntasks"]
    kw = dict(losses=list(P["losses"]), features=list(P["feats"]), aggregator=UPGrad(),
              tasks_params=[list(t) for t in P["tparams"]], shared_params=list(P["shared"]),
              parallel_chunk_size=_chunk(case.get("chunk")))
    if case.get("explicit") is False:
        kw["tasks_params"] = None
        kw["shared_params"] = None
    f = case["fault"]
    if f == "chunk":
        pass
    elif f == "empty-features":
        kw["features"] = []
    elif f == "empty-losses":
        kw["losses"] = []
        if kw["tasks_params"] is not None:
            kw["tasks_params"] = []
    elif f == "nonscalar-loss":
        i = case["idx"]
        if case.get("shape1"):
            kw["losses"][i] = kw["losses"][i].reshape(case["shape1"])
        else:
            kw["losses"][i] = torch.stack([kw["losses"][i], kw["losses"][i] * 2])
    elif f == "dup-feature":
        kw["features"] = kw["features"] + [kw["features"][0]]
    elif f == "count-mismatch":
        if case["where"] == "losses":
            if case["delta"] > 0:
                kw["losses"] = kw["losses"] + [kw["losses"][0] * 3]
            else:
                kw["losses"] = kw["losses"][:-1]
        else:
            if case["delta"] > 0:
                kw["tasks_params"] = kw["tasks_params"] + [[]]
            else:
                kw["tasks_params"] = kw["tasks_params"][:-1]
        if len(kw["losses"]) == 0:
            return "skip", None, None, False
    elif f == "frozen-default":
        w = case["which"]
        (P["shared"][int(w[1])] if w[0] == "s" else P["p"][int(w[1])]).requires_grad_(False)
        if case["defaults"] in ("both", "tasks"):
            kw["tasks_params"] = None
        if case["defaults"] in ("both", "shared"):
            kw["shared_params"] = None
        if (w[0] == "s" and kw["shared_params"] is not None) or (w[0] == "p" and kw["tasks_params"] is not None):
            return "skip", None, None, False  # the frozen tensor is listed explicitly: that is the bad-shared / bad-taskparam fault
    elif f == "overlap":
        s = P["shared"][case["shared_idx"]]
        kw["tasks_params"][case["task"]].insert(case["pos"], s)
    elif f == "dup-shared":
        kw["shared_params"].insert(case["pos"], P["shared"][0])
    elif f == "dup-taskparam":
        kw["tasks_params"][case["task"]] = kw["tasks_params"][case["task"]] * 2
    elif f == "bad-shared":
        bad = P["hs"] if case["kind"] == "nonleaf" else P["nograd"]
        kw["shared_params"].insert(case["pos"], bad)
    elif f == "bad-taskparam":
        bad = P["q"] if case["kind"] == "nonleaf" else P["nograd"]
        kw["tasks_params"][case["task"]].insert(case["pos"], bad)
    elif f == "bad-taskparam-only":
        bad = P["q"] if case["kind"] == "nonleaf" else P["nograd"]
        kw["tasks_params"][case["task"]] = [bad]
    if case.get("cont") == "gen":
        kw["shared_params"] = (t for t in kw["shared_params"])
        kw["tasks_params"] = [(t for t in tp) for tp in kw["tasks_params"]]
    before = _snapshot(P["all"])
    exc = None
    try:
        mtl_backward(**kw)
    except Exception as e:
        exc = e
    after = _snapshot(P["all"])
    return exc, before, after, True


def _sig(case):
    keys = ["ep", "fault", "kind", "agg", "where", "delta", "cont", "defaults"]
    return ":".join(str(case[k]) for k in keys if k in case)


def run_case(case):
    exc, before, after, would_write = (_run_bw if case["ep"] == "bw" else _run_mtl)(case)
    if exc == "skip":
        return dict(viol=[], execs=0, outcomes=["skip"], nontrivial=0)
    viol = []
    sig = _sig(case)
    detail = {k: v for k, v in case.items() if k not in ("seed",)}
    if exc is None:
        viol.append(dict(sig="not-rejected:" + sig, msg=f"call was accepted: {detail}"))
    if before != after:
        changed = [i for i, (x, y) in enumerate(zip(before, after)) if x != y]
        viol.append(dict(sig="partial-write:" + sig, cls="partial-write:" + sig,
                         msg=f".grad of leaves {changed} modified although the call raised {type(exc).__name__ if exc else None}: {detail}"))
    out = digest([type(exc).__name__ if exc is not None else None, before == after])
    return dict(viol=viol, execs=1, outcomes=[out + ":" + sig], nontrivial=int(bool(would_write)))
