"""C18 — MGDA, PCGrad, CAGrad, GradDrop and Random satisfy their published definitions (DESIGN §3 C18).

E-choice over the draws (the only nondeterminism of these aggregators), E-enum over matrices/configurations:
  PCGrad   every one of the m!^m raw ``torch.randperm`` results for m <= 3 (216 for m = 3) and every one of the
           (m-1)!^m = 1 296 effective projection orders for m = 4, replayed through ``DrawReplayer`` scripts that the
           E-choice explorer enumerates; oracle = row-space reference ``pcgrad_ref`` given the SAME orders (which also puts the
           output in the finite candidate set), and the plain sum of the rows when no two rows conflict.
  GradDrop every U in (grid u {P_j exactly})^n, grid = {0, 1/4, 1/2, 3/4, .999} (P_j = the purity of column j, i.e. an exact
           tie), leak in {None, 0, 1, (0,1/2,1), (1,1/2,0)}; oracle = per-coordinate reference (an all-zero column gives 0).
  Random   every randn vector in {-6,-2,0,3}^m (m <= 4), {-2,0,3}^5: weights = softmax, all > 0, sum 1, output = w @ J.
  MGDA     (epsilon, max_iters) in MGDA_CFG: weights on the simplex, output = w @ J, |A(J)| <= |mean row|, exact minimiser of the
           segment for m = 2 (closed form; one Frank-Wolfe step with exact line search is exact for two rows, measured 4e-16 s).
  CAGrad   c in {0, .25, .5, 1, 2}: | |x - g0| - c|g0| | <= 1e-7 s, or x == 0 and the reference certifies stationarity
           (0 in conv(rows) up to norm_eps, the aggregator's own threshold); c = 0 => x = g0 (1e-12 s) under the same escape.
Tolerances are relative to s = sigma_max(J) (float64 NumPy SVD).
"""
from __future__ import annotations

import itertools
import math
import os

import numpy as np

from mc import alphabets as A
from mc import refmodels as R
from mc.explorer import explore, permutation_by_index
from mc.runner import HarnessError, digest

SPEC = dict(
    property_id="C18",
    level="model_checking",
    rule=(
        "case = block of alphabet matrices for one aggregator; execution = one call of the real aggregator under one replayed "
        "draw schedule / configuration. non-trivial = PCGrad: matrices (per scaling) whose output depends on the schedule (>= 2 "
        "distinct outputs over the schedules); GradDrop: (matrix, leak) pairs whose output depends on U; Random: executions "
        "with a non-constant randn vector; MGDA: evaluations with m >= 2 whose output differs from the mean row (the solver "
        "moved); CAGrad: evaluations with c > 0 and a non-zero output different from the mean row"
    ),
    bound=dict(
        quick=(
            "PCGrad: all m!^m raw randperm results on ALL ternary matrices of shapes <= 2x3, 3x1, 3x2, the canonical 3x3 sublist "
            "(457), Near, D(seed) 3x4, row scalings L3^m on canonical 2-row sublists; all 1 296 effective orders for m=4 on D(seed) 4x3 "
            "and the first 8 canonical 4x2 matrices with >= 2 conflicting pairs. GradDrop: all ternary matrices with n <= 2 "
            "columns, canonical sublists for n = 3, Near, D(seed) 4x3; full U set for leak in {None,(0,1/2,1)}, U in ({0,1/2} u "
            "{P_j})^n for the other leaks (3x3: the reduced U set for all leaks); float32 on 2x2. Random: m <= 5. MGDA: all ternary "
            "<= 3x2 + canonical 3x3 + Near + D + row scalings (2-row) + global scales (canonical, m n <= 6). CAGrad: canonical "
            "sublists of all shapes <= 3x3 (612), Near, D, row scalings and global scales on canonical sublists with 2 rows / m n <= 6; native-seed structural family; buffer re-use histories"
        ),
        thorough=(
            "PCGrad: all m!^m raw randperm results on ALL 21 297 ternary matrices up to 3x3, Near, D(seed), row scalings L3^m on "
            "canonical sublists up to 3x2; all 1 296 effective orders for m=4 on D(seed) 4x3, 4x5 and all 103 canonical 4x2 "
            "matrices with >= 2 conflicting pairs. GradDrop: ALL ternary matrices up to 3x3 (full U set for leak in "
            "{None,(0,1/2,1)}, reduced for the others; on 3x3 full for (0,1/2,1), reduced for the other four), Near, D(seed) 3x4, 4x3. MGDA / CAGrad: ALL ternary matrices up to 3x3 x "
            "every configuration, Near, D(seed) up to 5x4, row scalings, global scales"
        ),
    ),
    assumptions=[
        "matrices off the finite alphabet are not covered; m = 4 projection orders on a list of ~120 matrices only",
        "GradDrop with f in {identity, square}; at an exact tie U_j == P_j neither sign is kept (the published strict inequalities)",
        "CAGrad: 'stationarity' is decided up to the aggregator's norm_eps (1e-4 s); matrices with 0 < s < norm_eps are not enumerated",
        "DrawReplayer owns torch.randperm/rand/randn; any other RNG use would surface as a determinism failure",
    ],
)

DETERMINISM_SLICE = 12
BLOCK = 12
GRID = [0.0, 0.25, 0.5, 0.75, 0.999]
GRID_REDUCED = [0.0, 0.5]
MGDA_CFG = [(1e-3, 100), (0.0, 1), (0.0, 2), (0.0, 3), (0.0, 100), (1e-3, 1), (0.5, 100)]
CAGRAD_C = [0.0, 0.25, 0.5, 1.0, 2.0]
CAGRAD_C_SCALED = [0.0, 0.5, 2.0]  # on row-scaled / globally scaled variants
CAGRAD_NORM_EPS = 1e-4
MGDA_CFG_SCALED = [(1e-3, 100), (0.0, 1), (0.0, 2), (0.5, 100)]
GSCALES = [1e-3, 1e6]
RANDN = [-6.0, -2.0, 0.0, 3.0]

TOL_PCGRAD = 1e-12  # x vs row-space reference, relative to s (times m)
TOL_SUM = 1e-13
TOL_GRADDROP = 1e-12
TOL_W = 1e-12
TOL_COMB = 1e-12
TOL_SEG = 1e-12
TOL_CAGRAD_R = 1e-7
TOL_CAGRAD_0 = 1e-12

_CANON = {}


def _canon(m, n):
    if (m, n) not in _CANON:
        _CANON[(m, n)] = A.canonical_ternary(m, n)
    return _CANON[(m, n)]


def _conf_pairs(J):
    G = J @ J.T
    m = len(G)
    return sum(1 for i in range(m) for j in range(i + 1, m) if G[i, j] < 0)


_C42 = []


def _canon42():
    if not _C42:
        _C42.extend([M for M in _canon(4, 2) if _conf_pairs(M) >= 2])
    return _C42


def _blocks(n, size):
    return [(lo, min(n, lo + size)) for lo in range(0, n, size)]


# ----------------------------------------------------------------------------------------------- cases
def gen_cases(tier, seed):
    th = tier == "thorough"
    cases = []
    full_q = [(1, 1), (1, 2), (1, 3), (2, 1), (2, 2), (2, 3), (3, 1), (3, 2)]

    def add(kind, src, m, n, N, size=BLOCK, **kw):
        for lo, hi in _blocks(N, size):
            cases.append(dict(kind=kind, src=src, m=m, n=n, lo=lo, hi=hi, seed=seed, **kw))

    nnear = len(A.near_cases())
    for (m, n) in A.SHAPES_LE3:
        N, NC = A.ternary_count(m, n), len(_canon(m, n))
        full = th or (m, n) in full_q
        # PCGrad, raw randperm results
        if full:
            add("pcgrad", "ternary", m, n, N, mode="base")
        else:
            add("pcgrad", "canon", m, n, NC, mode="base")
        if m >= 2 and (m, n) != (3, 3) and (th or m == 2):
            add("pcgrad", "canon", m, n, NC, size=4, mode="rows")
        # GradDrop
        gsrc = "ternary" if (th or n <= 2) else "canon"
        gN = N if gsrc == "ternary" else NC
        gsize = 48 if n == 1 else (12 if n == 2 else 3)
        if (m, n) != (3, 3):
            add("graddrop", gsrc, m, n, gN, size=gsize, uset="full", leaks=[0, 3], dtype="float64")
            add("graddrop", gsrc, m, n, gN, size=gsize * 4, uset="reduced", leaks=[1, 2, 4], dtype="float64")
        else:  # 3x3: the full U set for the leak (0,1/2,1) in the thorough tier only, the reduced one for every leak
            if th:
                add("graddrop", gsrc, m, n, gN, size=gsize, uset="full", leaks=[3], dtype="float64")
            add("graddrop", gsrc, m, n, gN, size=gsize * 4, uset="reduced", leaks=[0, 1, 2, 4] if th else [0, 1, 2, 3, 4], dtype="float64")
        if (m, n) == (2, 2):
            add("graddrop", "ternary", m, n, N, size=12, uset="full", leaks=[0, 3], dtype="float32")
        # a non-default purity transform f (added after a seeded change - one of the two masks using P instead of f(P) - was missed)
        if n <= 2 or th:
            add("graddrop", gsrc, m, n, gN, size=gsize * 2, uset="full" if n <= 2 else "reduced", leaks=[0, 3], dtype="float64", f="square")
        # MGDA
        if full:
            add("mgda", "ternary", m, n, N, mode="base")
        else:
            add("mgda", "canon", m, n, NC, mode="base")
        if m == 2 or (th and m == 3):
            add("mgda", "ternary" if m == 2 else "canon", m, n, N if m == 2 else NC, mode="rows")
        if th or m * n <= 6:
            add("mgda", "canon", m, n, NC, mode="gscale")
        # CAGrad
        if th:
            add("cagrad", "ternary", m, n, N, size=8, mode="base")
        else:
            add("cagrad", "canon", m, n, NC, size=6, mode="base")
        if m == 2 or (th and m == 3):
            add("cagrad", "canon", m, n, NC, size=2, mode="rows")
        if th or m * n <= 6:
            add("cagrad", "canon", m, n, NC, size=6, mode="gscale")
    dsh3 = [(3, 4)] if not th else [(3, 4), (3, 2)]
    for kind in ("pcgrad", "mgda", "cagrad"):
        add(kind, "near", 0, 0, nnear, size=4, mode="base")
        for (m, n) in dsh3 + ([(4, 3)] if kind != "pcgrad" else []) + ([(4, 5), (5, 4)] if th and kind != "pcgrad" else []):
            add(kind, "dense", m, n, 8, size=4, mode="base")
    add("graddrop", "near", 0, 0, nnear, size=2, uset="full", leaks=[0, 1, 2, 3, 4], dtype="float64")
    for (m, n) in [(4, 3)] + ([(3, 4)] if th else []):
        add("graddrop", "dense", m, n, 8, size=1, uset="full", leaks=[0, 1, 2, 3, 4], dtype="float64")
    # PCGrad m = 4: effective orders, one matrix per case
    add("pcgrad4", "dense", 4, 3, 8, size=1)
    if th:
        add("pcgrad4", "dense", 4, 5, 8, size=1)
    add("pcgrad4", "canon42", 4, 2, len(_canon42()) if th else 8, size=1)
    # Random
    for (m, n) in [(1, 2), (2, 2), (3, 3), (4, 3), (5, 4)]:
        add("random", "dense", m, n, 2 if not th else 8, size=1)
    for k_ in range(3):
        cases.append(dict(kind="native", src="native", m=0, n=0, lo=0, hi=0, seed=seed, k=k_))
    cases.append(dict(kind="bufreuse", src="bufreuse", m=0, n=0, lo=0, hi=0, seed=seed))  # one instance, one buffer re-filled in place (mc/bufreuse.py)
    only = os.environ.get("VERIF_C18_ONLY")  # development aid (mutant triage): restrict to some kinds; never set in real runs
    if only:
        cases = [c for c in cases if c["kind"] in only.split(",")]
    return cases


def _matrices(case):
    lo, hi = case["lo"], case["hi"]
    src = case["src"]
    if src == "ternary":
        return [A.ternary_index(case["m"], case["n"], i) for i in range(lo, hi)]
    if src == "canon":
        return _canon(case["m"], case["n"])[lo:hi]
    if src == "canon42":
        return _canon42()[lo:hi]
    if src == "near":
        return A.near_cases()[lo:hi]
    return A.dense(case["seed"], case["m"], case["n"], 8)[lo:hi]


def _variants(J0, mode):
    m = J0.shape[0]
    if mode == "base":
        return [("1", J0)]
    if mode == "gscale":
        return [(f"t={t:g}", J0 * t) for t in GSCALES]
    out = []
    for c in itertools.product(A.L3, repeat=m):
        if len(set(c)) > 1:
            out.append(("c=" + ",".join(f"{v:g}" for v in c), np.array(c)[:, None] * J0))
    return out


class _Acc:
    """Accumulates the result dict of a case."""

    def __init__(self):
        self.viol, self.outcomes, self.execs, self.nontriv, self.dropped = [], set(), 0, 0, 0
        self.margin, self.maxima, self.counters = 0.0, {}, {}

    def mg(self, key, val):
        self.maxima[key] = max(self.maxima.get(key, 0.0), val)
        self.margin = max(self.margin, val)

    def count(self, key, k=1):
        self.counters[key] = self.counters.get(key, 0) + k

    def add_viol(self, sig, msg, cls=None):
        self.viol.append(dict(sig=sig, msg=msg[:900], cls=cls or sig))

    def result(self):
        return dict(
            viol=self.viol, execs=self.execs, outcomes=sorted(self.outcomes), nontrivial=self.nontriv, dropped=self.dropped,
            margin=self.margin, maxima=self.maxima, counters=self.counters,
        )


def _weighted_call(agg, Jt):
    got = []
    h = agg.weighting.register_forward_hook(lambda mod, inp, out: got.append(out))
    try:
        x = agg(Jt)
    finally:
        h.remove()
    if len(got) != 1:
        raise HarnessError(f"weighting called {len(got)} times")
    return x, got[0]


def _bad_output(x, Jt):
    import torch

    return x.dtype != Jt.dtype or tuple(x.shape) != (Jt.shape[1],) or not bool(torch.isfinite(x).all())


# ----------------------------------------------------------------------------------------------- PCGrad
def _pcgrad_schedules(J, effective, acc, desc):
    """Explores every schedule of PCGrad on J. effective=False: all m!^m raw randperm results; True: all (m-1)!^m effective
    orders (row i's own index is inserted at a position that varies with the schedule)."""
    import torch
    from torchjd.aggregation import PCGrad

    from mc.seams import DrawReplayer

    Jt = torch.tensor(J, dtype=torch.float64)
    Jd = Jt.numpy()
    m = J.shape[0]
    s = A.sigma_max(Jd)
    ssc = max(s, 1e-300)
    nalt = math.factorial(m - 1 if effective else m)
    no_conflict = bool(((Jd @ Jd.T) >= 0).all())
    plain = Jd.sum(axis=0)
    ref_cache = {}
    outs = set()

    def run(ch):
        perms = []
        for i in range(m):
            k = ch.choose(nalt, f"randperm[{i}]")
            if effective:
                others = [j for j in range(m) if j != i]
                eff = [others[t] for t in permutation_by_index(m - 1, k)]
                pos = (k + i) % m
                perms.append(eff[:pos] + [i] + eff[pos:])
            else:
                perms.append(permutation_by_index(m, k))
        rp = DrawReplayer([("randperm", p) for p in perms])
        try:
            with rp:
                x = PCGrad()(Jt)
        except DrawReplayer.Mismatch as e:
            raise HarnessError(f"PCGrad draw protocol changed: {e}")
        except Exception as e:
            return perms, None, e
        if not rp.exhausted or rp.log != [("randperm", (m,))] * m:
            raise HarnessError(f"PCGrad draw protocol changed: log={rp.log}")
        return perms, x, None

    n_exec = 0
    first = {}
    for _choices, (perms, x, err) in explore(run):
        n_exec += 1
        if err is not None:
            if "exc" not in first:
                first["exc"] = 1
                acc.add_viol(f"exception:pcgrad:{type(err).__name__}", f"{desc} orders={perms}: {err!r}")
            continue
        if _bad_output(x, Jt):
            if "bad" not in first:
                first["bad"] = 1
                acc.add_viol("bad-output:pcgrad", f"{desc} orders={perms}: x={x}")
            continue
        x = x.numpy()
        key = tuple(tuple(j for j in p if j != i) for i, p in enumerate(perms))
        if key not in ref_cache:
            ref_cache[key] = R.pcgrad_ref(Jd, perms)
        xr = ref_cache[key]
        e = float(np.abs(x - xr).max()) / (TOL_PCGRAD * m * ssc)
        acc.mg("pcgrad-vs-ref" + ("-m4" if effective else ""), e)
        if e > 1 and "ref" not in first:
            first["ref"] = 1
            acc.add_viol("pcgrad-not-the-sequential-projection", f"{desc} orders={perms}: x={x.tolist()} ref={xr.tolist()} err/tol={e:.3g}")
        if no_conflict:
            e2 = float(np.abs(x - plain).max()) / (TOL_SUM * m * ssc)
            acc.mg("pcgrad-plain-sum", e2)
            if e2 > 1 and "sum" not in first:
                first["sum"] = 1
                acc.add_viol("pcgrad-no-conflict-not-the-sum", f"{desc} orders={perms}: x={x.tolist()} sum={plain.tolist()}")
        outs.add(tuple(np.round(x / ssc, 9).tolist()))
    if n_exec != nalt**m:
        raise HarnessError(f"explorer ran {n_exec} schedules, expected {nalt ** m}")
    acc.execs += n_exec
    acc.count("pcgrad-schedules", n_exec)
    if len(outs) >= 2:
        acc.nontriv += 1
    for o in outs:
        acc.outcomes.add(digest(["pcgrad", o]))
    return len(outs)


def _run_pcgrad(case, acc):
    eff = case["kind"] == "pcgrad4"
    worst = 0
    for J0 in _matrices(case):
        for vl, J in _variants(J0, case.get("mode", "base")):
            nd = _pcgrad_schedules(J, eff, acc, f"J={J.tolist()}")
            worst = max(worst, nd)
            acc.count(f"pcgrad{'4' if eff else ''}-matrices-with-{'>=2' if _conf_pairs(J) >= 2 else '<2'}-conflicting-pairs")
    acc.maxima["info:pcgrad distinct outputs of one matrix (not a margin)" + ("-m4" if eff else "")] = float(worst)


# ----------------------------------------------------------------------------------------------- GradDrop
def _leaks(m):
    base = [0.0, 0.5, 1.0, 0.25, 0.75]
    inc = base[:m]
    return [None, [0.0] * m, [1.0] * m, inc, inc[::-1] if m > 1 else [1.0]]


def _run_graddrop(case, acc):
    import torch
    from torchjd.aggregation import GradDrop

    from mc.seams import DrawReplayer

    dt = getattr(torch, case["dtype"])
    npdt = np.float32 if case["dtype"] == "float32" else np.float64
    grid = GRID if case["uset"] == "full" else GRID_REDUCED
    for J0 in _matrices(case):
        Jt = torch.tensor(J0, dtype=dt)
        Jn = Jt.numpy()
        Jd = Jt.double().numpy()
        m, n = Jd.shape
        s = A.sigma_max(Jd)
        ssc = max(s, 1e-300)
        # purity in the dtype of the matrix, by the published formula, in NumPy (the tie value U_j == P_j)
        with np.errstate(invalid="ignore", divide="ignore"):
            P = (npdt(0.5) * (np.ones(n, dtype=npdt) + Jn.sum(axis=0, dtype=npdt) / np.abs(Jn).sum(axis=0, dtype=npdt))).astype(npdt)
        # the same formula with torch ops of the harness: a tie is only constructed where both agree bit for bit (otherwise
        # U_j == P_j would not be a tie for the library and the reference would be wrong about it): such columns get no tie value
        with torch.no_grad():
            Pt = (0.5 * (torch.ones(n, dtype=dt) + Jt.sum(dim=0) / Jt.abs().sum(dim=0))).numpy()
        percol = []
        for j in range(n):
            vals = [npdt(g) for g in grid]
            # torch.rand draws from [0, 1): a tie with a purity of exactly 1 cannot be drawn and is not enumerated
            if np.isfinite(P[j]) and float(P[j]) < 1.0 and not any(float(v) == float(P[j]) for v in vals):
                if P[j] == Pt[j]:
                    vals.append(P[j])
                else:
                    acc.dropped += 1
                    acc.count("graddrop-tie-not-constructible(numpy and torch purity differ)")
            percol.append([float(v) for v in vals])
        fname = case.get("f")
        fP = P if fname is None else (P * P).astype(npdt)
        if fname is not None:
            with torch.no_grad():
                fPt = torch.square(torch.from_numpy(Pt.copy())).numpy()
            for j in range(n):
                if np.isfinite(fP[j]) and float(fP[j]) < 1.0 and fP[j] == fPt[j] and float(fP[j]) not in percol[j]:
                    percol[j].append(float(fP[j]))
        leaks = _leaks(m)
        for li in case["leaks"]:
            leak = leaks[li]
            lt = None if leak is None else torch.tensor(leak, dtype=dt)
            ld = None if leak is None else lt.double().numpy()
            outs = set()
            reported = False
            for U in itertools.product(*percol):
                rp = DrawReplayer([("rand", list(U))])
                try:
                    with rp:
                        x = (GradDrop(leak=lt) if fname is None else GradDrop(torch.square, lt))(Jt)
                except DrawReplayer.Mismatch as e:
                    raise HarnessError(f"GradDrop draw protocol changed: {e}")
                except Exception as e:
                    acc.execs += 1
                    if not reported:
                        reported = True
                        acc.add_viol(f"exception:graddrop:{type(e).__name__}", f"J={J0.tolist()} U={U} leak={leak}: {e!r}")
                    continue
                acc.execs += 1
                if not rp.exhausted:
                    raise HarnessError("GradDrop did not draw U")
                desc = f"J={J0.tolist()} U={list(U)} leak={leak} {case['dtype']}"
                if x.dtype != dt or tuple(x.shape) != (n,):
                    if not reported:
                        reported = True
                        acc.add_viol("bad-output:graddrop", f"{desc}: x={x}")
                    continue
                xd = x.double().numpy()
                if not np.isfinite(xd).all():
                    zc = bool((np.abs(Jd).sum(axis=0) == 0).any())
                    if not reported:
                        reported = True
                        acc.add_viol("graddrop-nan-on-zero-column" if zc else "bad-output:graddrop", f"{desc}: x={xd.tolist()}")
                    continue
                Ud = np.array([float(npdt(u)) for u in U])
                xr = _graddrop_ref(Jd, Ud, fP.astype(np.float64), ld)
                if fname is None and npdt is np.float64 and not np.array_equal(xr, R.graddrop_ref(Jd, Ud, ld)):
                    raise HarnessError(f"the two GradDrop references disagree on {desc}")
                tol = (TOL_GRADDROP if npdt is np.float64 else 1e-6) * ssc * m
                e = float(np.abs(xd - xr).max()) / tol if s > 0 else float(np.abs(xd).max())
                acc.mg(f"graddrop-vs-ref:{case['dtype']}", e)
                if e > 1 and not reported:
                    reported = True
                    acc.add_viol(
                        "graddrop-not-the-sign-dropout" + ("" if leak is None else ":leak"),
                        f"{desc} f={fname}: x={xd.tolist()} ref={xr.tolist()} P={P.tolist()}", cls=f"graddrop:{li}:{case['dtype']}:{fname}",
                    )
                if any(u == p for u, p in zip(Ud, P.astype(np.float64))):
                    acc.count("graddrop-executions-with-an-exact-tie")
                outs.add(tuple(np.round(xd / ssc, 9).tolist()))
            if len(outs) >= 2:
                acc.nontriv += 1
            for o in outs:
                acc.outcomes.add(digest(["graddrop", li, o]))
        if (np.abs(Jd).sum(axis=0) == 0).any() and s > 0:
            acc.count("graddrop-matrices-with-an-all-zero-column")


def _graddrop_ref(J, U, P, leak):
    """Per-coordinate GradDrop with the purity P passed in (the float of the matrix dtype, so that a tie U_j == P_j is decided
    on the very number the tie was built from). nan purity (all-zero column): nothing is kept, the coordinate is 0."""
    m, n = J.shape
    lk = np.zeros(m) if leak is None else leak
    x = np.zeros(n)
    for j in range(n):
        keep_pos, keep_neg = bool(P[j] > U[j]), bool(P[j] < U[j])
        for i in range(m):
            kept = (keep_pos and J[i, j] > 0) or (keep_neg and J[i, j] < 0)
            x[j] += (lk[i] + (1 - lk[i]) * (1.0 if kept else 0.0)) * J[i, j]
    return x


# ----------------------------------------------------------------------------------------------- Random
def _run_random(case, acc):
    import torch
    from torchjd.aggregation import Random

    from mc.seams import DrawReplayer

    for J0 in _matrices(case):
        m = J0.shape[0]
        for dtype in ("float64", "float32"):
            dt = getattr(torch, dtype)
            Jt = torch.tensor(J0, dtype=dt)
            Jd = Jt.double().numpy()
            s = max(A.sigma_max(Jd), 1e-300)
            f32 = dtype == "float32"
            alphabet = RANDN if m <= 4 else RANDN[1:]
            reported = False
            for v in itertools.product(alphabet, repeat=m):
                rp = DrawReplayer([("randn", list(v))])
                agg = Random()
                try:
                    with rp:
                        x, w = _weighted_call(agg, Jt)
                except DrawReplayer.Mismatch as e:
                    raise HarnessError(f"Random draw protocol changed: {e}")
                except HarnessError:
                    raise
                except Exception as e:
                    acc.execs += 1
                    if not reported:
                        reported = True
                        acc.add_viol(f"exception:random:{type(e).__name__}", f"J={J0.tolist()} randn={v}: {e!r}")
                    continue
                acc.execs += 1
                if not rp.exhausted:
                    raise HarnessError("Random did not draw")
                desc = f"J={J0.tolist()} randn={list(v)} {dtype}"
                if _bad_output(x, Jt) or tuple(w.shape) != (m,):
                    if not reported:
                        reported = True
                        acc.add_viol("bad-output:random", f"{desc}: x={x} w={w}")
                    continue
                wd, xd = w.double().numpy(), x.double().numpy()
                wr = R.softmax(np.array(v))
                tw = 4e-6 if f32 else TOL_W
                e = float(np.abs(wd - wr).max()) / tw
                acc.mg(f"random-softmax:{dtype}", e)
                e1 = abs(float(wd.sum()) - 1.0) / tw
                acc.mg(f"random-sum1:{dtype}", e1)
                e2 = float(np.abs(xd - wd @ Jd).max()) / ((4e-6 if f32 else TOL_COMB) * s * m)
                acc.mg(f"random-combine:{dtype}", e2)
                if not reported:
                    if not (wd > 0).all():
                        reported = True
                        acc.add_viol("random-weight-not-strictly-positive", f"{desc}: w={wd.tolist()}")
                    elif e > 1 or e1 > 1:
                        reported = True
                        acc.add_viol("random-not-softmax-of-the-draw", f"{desc}: w={wd.tolist()} softmax={wr.tolist()} sum={wd.sum()!r}")
                    elif e2 > 1:
                        reported = True
                        acc.add_viol("random-not-the-combination", f"{desc}: x={xd.tolist()} w@J={(wd @ Jd).tolist()}")
                if len(set(v)) > 1:
                    acc.nontriv += 1
                acc.outcomes.add(digest(["random", dtype, np.round(wd, 6).tolist()]))


# ----------------------------------------------------------------------------------------------- MGDA
def _segment_min(a, b):
    d = a - b
    dd = float(d @ d)
    if dd == 0.0:
        return a.copy()
    t = min(1.0, max(0.0, -float(d @ b) / dd))
    return t * a + (1 - t) * b


def _run_mgda(case, acc):
    import torch
    from torchjd.aggregation import MGDA

    for J0 in _matrices(case):
        for vl, J in _variants(J0, case["mode"]):
            Jt = torch.tensor(J, dtype=torch.float64)
            Jd = Jt.numpy()
            m = Jd.shape[0]
            s = A.sigma_max(Jd)
            ssc = max(s, 1e-300)
            g0 = Jd.mean(axis=0)
            seg = _segment_min(Jd[0], Jd[1]) if m == 2 else None
            for (ep, it) in MGDA_CFG if case["mode"] == "base" else MGDA_CFG_SCALED:
                desc = f"J={J.tolist()} MGDA(epsilon={ep},max_iters={it}) s={s:.4g}"
                tag = f"eps={ep},iters={it}"
                try:
                    x, w = _weighted_call(MGDA(epsilon=ep, max_iters=it), Jt)
                except HarnessError:
                    raise
                except Exception as e:
                    acc.execs += 1
                    acc.add_viol(f"exception:mgda:{type(e).__name__}", f"{desc}: {e!r}", cls=f"exc:mgda:{tag}")
                    continue
                acc.execs += 1
                if _bad_output(x, Jt) or tuple(w.shape) != (m,):
                    acc.add_viol("bad-output:mgda", f"{desc}: x={x} w={w}", cls=f"bad:mgda:{tag}")
                    continue
                xd, wd = x.numpy(), w.numpy()
                v = None
                e_neg = max(0.0, float(-wd.min())) / 1e-15
                e_sum = abs(float(wd.sum()) - 1.0) / TOL_W
                acc.mg("mgda-simplex", max(e_neg, e_sum))
                e_c = float(np.abs(xd - wd @ Jd).max()) / (TOL_COMB * ssc * m)
                acc.mg("mgda-combine", e_c)
                e_len = max(0.0, float(np.linalg.norm(xd) - np.linalg.norm(g0))) / (1e-12 * ssc)
                acc.mg("mgda-not-longer-than-mean", e_len)
                if e_neg > 1 or e_sum > 1:
                    v = ("mgda-weights-off-the-simplex", f"w={wd.tolist()} sum-1={wd.sum() - 1:.3g}")
                elif e_c > 1:
                    v = ("mgda-not-the-combination", f"x={xd.tolist()} w@J={(wd @ Jd).tolist()}")
                elif e_len > 1:
                    v = ("mgda-longer-than-the-mean", f"|x|={np.linalg.norm(xd)!r} |g0|={np.linalg.norm(g0)!r} x={xd.tolist()}")
                if m == 2 and it >= 1:
                    e_s = float(np.abs(xd - seg).max()) / (TOL_SEG * ssc)
                    acc.mg("mgda-m2-segment-minimiser", e_s)
                    if e_s > 1 and v is None:
                        v = ("mgda-m2-not-the-segment-minimiser", f"x={xd.tolist()} minimiser={seg.tolist()} err/tol={e_s:.3g}")
                if v is not None:
                    acc.add_viol(v[0], f"{desc}: {v[1]}", cls=f"{v[0]}:{tag}:{case['mode']}")
                if m >= 2 and float(np.abs(xd - g0).max()) > 1e-9 * ssc:
                    acc.nontriv += 1
                acc.outcomes.add(digest(["mgda", np.round(xd / ssc, 6).tolist()]))


# ----------------------------------------------------------------------------------------------- CAGrad
def _run_cagrad(case, acc):
    import torch
    from torchjd.aggregation import CAGrad

    for J0 in _matrices(case):
        for vl, J in _variants(J0, case["mode"]):
            Jt = torch.tensor(J, dtype=torch.float64)
            Jd = Jt.numpy()
            s = A.sigma_max(Jd)
            if 0 < s < CAGRAD_NORM_EPS:
                acc.dropped += 1
                continue
            ssc = max(s, 1e-300)
            g0 = Jd.mean(axis=0)
            ng0 = float(np.linalg.norm(g0))
            mn = None
            for c in CAGRAD_C if case["mode"] == "base" else CAGRAD_C_SCALED:
                desc = f"J={J.tolist()} CAGrad(c={c}) s={s:.4g}"
                try:
                    x = CAGrad(c=c, norm_eps=CAGRAD_NORM_EPS)(Jt)
                except Exception as e:
                    acc.execs += 1
                    acc.add_viol(f"exception:cagrad:{type(e).__name__}", f"{desc}: {e!r}", cls=f"exc:cagrad:{c}")
                    continue
                acc.execs += 1
                if _bad_output(x, Jt):
                    acc.add_viol("bad-output:cagrad", f"{desc}: x={x}", cls=f"bad:cagrad:{c}")
                    continue
                xd = x.numpy()
                v = None
                dist = float(np.linalg.norm(xd - g0))
                e_r = abs(dist - c * ng0) / ((TOL_CAGRAD_R if c > 0 else TOL_CAGRAD_0) * ssc)
                zero = not np.any(xd)
                if zero and e_r > 1e-3:
                    # the escape: the zero vector, allowed at stationarity only (decided up to norm_eps by the reference)
                    if mn is None:
                        _, _, val = R.min_norm_point(Jd / ssc)
                        mn = math.sqrt(max(0.0, val))
                    acc.count("cagrad-zero-outputs")
                    if mn > 1e-6:  # the reference's minnorm^2 is exact to ~1e-12 only
                        acc.count("cagrad-zero-outputs-at-approximate-stationarity(1e-6<minnorm/s<=norm_eps)")
                    # not an error/tolerance ratio: the library returns 0 iff |g_w| < norm_eps s and minnorm <= |g_w|, so this may approach 1
                    k_ = "info:cagrad zero output: minnorm/(norm_eps s) (not a margin)"
                    acc.maxima[k_] = max(acc.maxima.get(k_, 0.0), mn / CAGRAD_NORM_EPS)
                    if mn > CAGRAD_NORM_EPS * (1 + 1e-3):
                        v = ("cagrad-zero-output-off-stationarity", f"x=0 but min-norm point of conv(rows) has norm {mn:.6g} s")
                else:
                    acc.mg(f"cagrad-radius:c={c}", e_r)
                    if e_r > 1:
                        v = (
                            "cagrad-not-at-distance-c|g0|" if c > 0 else "cagrad-c0-not-the-mean",
                            f"|x-g0|={dist!r} c|g0|={c * ng0!r} x={xd.tolist()} g0={g0.tolist()} err/tol={e_r:.3g}",
                        )
                    if c > 0 and not zero and dist > 1e-9 * ssc:
                        acc.nontriv += 1
                if v is not None:
                    acc.add_viol(v[0], f"{desc}: {v[1]}", cls=f"{v[0]}:c={c}:{case['mode']}")
                acc.outcomes.add(digest(["cagrad", c, np.round(xd / ssc, 6).tolist()]))


def _run_native(case, acc):
    """GradDrop and PCGrad under torch.manual_seed, WITHOUT replayed draws (added after a seeded change - GradDrop drawing one sample per
    entry instead of one per column - ended as a harness fault of the replay-based family): whatever is drawn, every coordinate of
    GradDrop's output must be one of the candidates of its column (positive entries kept, negative entries kept, or - at a tie /
    on an all-zero column - only the leaked shares), and PCGrad's output must be one of the finitely many sequential projections."""
    import torch
    from torchjd.aggregation import GradDrop, PCGrad

    mats = [np.array([[1.0, -2.0, 3.0], [2.0, 1.0, -1.0], [-3.0, 4.0, 2.0]]), np.array([[1.0, -1.0], [2.0, 3.0], [-0.5, -2.0], [4.0, 0.5]]),
            np.array([[-1.0, 2.0, 0.5, 1.0], [3.0, -1.0, 2.0, -2.0]])]
    J = mats[case["k"]]
    m, n = J.shape
    s = A.sigma_max(J)
    leaks = [None, np.array([(i + 1.0) / (m + 1) for i in range(m)]), np.ones(m) * 0.5]
    for li, leak in enumerate(leaks):
        lk = np.zeros(m) if leak is None else leak
        cand = []
        for j in range(n):
            col = J[:, j]
            pos = float(sum((lk[i] + (1 - lk[i]) * (col[i] > 0)) * col[i] for i in range(m)))
            neg = float(sum((lk[i] + (1 - lk[i]) * (col[i] < 0)) * col[i] for i in range(m)))
            none = float(sum(lk[i] * col[i] for i in range(m)))
            cand.append((pos, neg, none))
        agg = GradDrop(leak=None if leak is None else torch.tensor(leak, dtype=torch.float64))
        seen = set()
        for z in range(16):
            torch.manual_seed(z)
            acc.execs += 1
            x = agg(torch.tensor(J, dtype=torch.float64)).numpy()
            for j in range(n):
                e = min(abs(x[j] - c) for c in cand[j]) / (1e-12 * s * m)
                acc.mg("graddrop-native-structure", e)
                if not (e <= 1):
                    acc.add_viol("graddrop-coordinate-is-not-a-one-sign-sum" + ("" if leak is None else ":leak"),
                                 f"J={J.tolist()} leak={None if leak is None else leak.tolist()} manual_seed({z}): x[{j}]={x[j]} candidates (positive kept, negative kept, "
                                 f"none kept)={cand[j]}", cls=f"graddrop-native:{li}")
                    break
            seen.add(tuple(np.round(x, 9).tolist()))
        if len(seen) >= 2:
            acc.nontriv += 1
        for o in seen:
            acc.outcomes.add(digest(["graddrop-native", li, o]))
    if m <= 3:
        import itertools as it
        perms = list(it.permutations(range(m)))
        cands = [R.pcgrad_ref(J, list(sched)) for sched in it.product(perms, repeat=m)]
        agg = PCGrad()
        for z in range(16):
            torch.manual_seed(z)
            acc.execs += 1
            x = agg(torch.tensor(J, dtype=torch.float64)).numpy()
            e = min(float(np.abs(x - c).max()) for c in cands) / (1e-12 * s * m)
            acc.mg("pcgrad-native-candidate-set", e)
            if not (e <= 1):
                acc.add_viol("pcgrad-not-in-the-candidate-set:native-seed", f"J={J.tolist()} manual_seed({z}): x={x.tolist()} is none of the {len(cands)} sequential projections")
                break


_RUN = dict(pcgrad=_run_pcgrad, pcgrad4=_run_pcgrad, graddrop=_run_graddrop, random=_run_random, mgda=_run_mgda, cagrad=_run_cagrad, native=_run_native)


def run_case(case):
    if case["kind"] == "bufreuse":
        import torch
        from torchjd import aggregation as T

        from mc import bufreuse

        r = bufreuse.run({"MGDA": lambda dt: T.MGDA(), "PCGrad": lambda dt: T.PCGrad(), "CAGrad(0.5)": lambda dt: T.CAGrad(c=0.5), "CAGrad(0)": lambda dt: T.CAGrad(c=0.0),
                          "GradDrop": lambda dt: T.GradDrop(), "GradDrop|leak": lambda dt: T.GradDrop(leak=torch.tensor([0.0, 0.5, 1.0], dtype=dt)),
                          "Random": lambda dt: T.Random()}, seeded=("PCGrad", "GradDrop", "GradDrop|leak", "Random"), tols={"CAGrad(0.5)": 1e-3, "CAGrad(0)": 1e-3})
        r.update(maxima={}, counters={"cases:bufreuse": 1}, margin=0.0)
        return r
    acc = _Acc()
    _RUN[case["kind"]](case, acc)
    acc.count(f"cases:{case['kind']}")
    acc.count(f"execs:{case['kind']}", acc.execs)
    # info entries are not margins
    r = acc.result()
    r["margin"] = max([v for k, v in r["maxima"].items() if not k.startswith("info:")] or [0.0])
    return r


def finalize(tier, seed, agg, cases, results):
    c = agg["counters"]
    need = ["execs:pcgrad", "execs:pcgrad4", "execs:graddrop", "execs:random", "execs:mgda", "execs:cagrad", "graddrop-executions-with-an-exact-tie"]
    full = len(cases) == len(gen_cases(tier, seed)) and not os.environ.get("VERIF_C18_ONLY")
    if full:
        missing = [k for k in need if c.get(k, 0) == 0]
        if missing:
            raise HarnessError(f"vacuous sub-check(s): {missing}")
        if agg["maxima"].get("info:pcgrad distinct outputs of one matrix (not a margin)", 0) < 2:
            raise HarnessError("no PCGrad matrix whose output depends on the projection order")
    return {}
