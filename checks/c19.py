"""C19 — NashMTL's state: reset() means fresh, weights are reused as scheduled (DESIGN §3 C19).

E-hist: every history of call(M_a) / reset events up to the length bound over a small matrix alphabet, for every
configuration (update_weights_every k, max_norm, optim_niter, n_tasks). Differential oracles on the real class:
(i) after each reset the outputs on the remaining suffix equal bit-exactly those of a newly constructed instance
fed that suffix; (ii) schedule: a reference instance with update_weights_every=1 and max_norm=0, fed only the
matrices at positions 0,k,2k,... since the last reset, yields the weight sequence; the instance under test must
return clip_{max_norm}(alpha_{floor(i/k)}) @ M_i at position i; (iii) |output| <= max_norm; (iv) every call succeeds.
"""
from __future__ import annotations

import itertools

import numpy as np

from mc.runner import digest

SPEC = dict(
    property_id="C19",
    level="model_checking",
    rule=(
        "state = (configuration, history of call/reset events); transition = one real NashMTL call or reset(); all histories up to "
        "the length bound are explored (a case = all histories sharing their first two events); non-trivial = distinct histories "
        "whose outputs after the last reset differ from what the same instance returns when the reset is omitted or that contain a "
        "reused-weights call (i.e. the state is observable)"
    ),
    bound=dict(
        quick="alphabet {M1, M2, M4(ill-scaled, warm-start sensitive), reset}; all histories of length <= 4 for (k=2, max_norm=1) and of length <= 3 "
              "for (k=1,max_norm=1), (k=2,max_norm=0), (k=3,max_norm=0.3), (k=4,max_norm=1), (k=2,optim_niter=1); n_tasks=2; plus (k=2,max_norm=0.3) over "
              "{M1, M6=0.3*M1, M2, reset} and n_tasks=3 (k=1,max_norm=1), (k=2,max_norm=0) over {M1, M5 (solver reports 'unbounded': fallback path), reset}, length <= 3",
        thorough="alphabet {M1,M2,M3,M4,reset}; k in 1..4 x max_norm in {1,0.3,0} x optim_niter in {20,1}: all histories of length <= 5 when "
                 "(optim_niter=20, max_norm=1) and <= 4 otherwise; n_tasks=3: k in 1..3, length <= 4; n_tasks in {4,5}: k in {1,2}, length <= 3",
    ),
    assumptions=[
        "the ECOS solver is deterministic: equal inputs and equal warm starts give bit-identical outputs (checked by the double-run slice)",
        "well-conditioned matrices with 2..3 rows plus one deliberately ill-scaled matrix used in the differential oracles only",
        "'random beyond length 5' in the quantifier is sampling and is not performed",
    ],
)

DETERMINISM_SLICE = 6


def _mats(n_tasks):
    import torch

    if n_tasks == 2:
        rows = {
            "M1": [[1.0, 0.2, 0.0], [0.1, 1.0, 0.3]],
            "M2": [[2.0, -1.0, 0.5], [0.3, 0.4, -1.0]],
            "M3": [[0.5, 0.5, 1.0], [1.0, -0.2, 0.1]],
            "M4": [[100.0, 0.0, 0.0], [0.0, 0.01, 0.0]],
            # 0.3 x M1: weights computed on M1 and REUSED on it give a vector of norm 0.3 * sqrt(2) = 0.42, between max_norm = 0.3 and its
            # square root (added after a seeded change that compared the squared norm with max_norm)
            "M6": [[0.3, 0.06, 0.0], [0.03, 0.3, 0.09]],
        }
    else:
        rows = {
            "M1": [[1.0, 0.2, 0.0, 0.1], [0.1, 1.0, 0.3, 0.0], [0.0, 0.2, 1.0, 0.5]],
            "M2": [[2.0, -1.0, 0.5, 0.0], [0.3, 0.4, -1.0, 0.2], [-0.5, 0.1, 0.3, 1.0]],
            "M3": [[0.5, 0.5, 1.0, 0.0], [1.0, -0.2, 0.1, 0.3], [0.2, 1.0, -0.3, 0.4]],
            "M4": [[100.0, 0.0, 0.0, 0.0], [0.0, 0.01, 0.0, 0.0], [0.0, 0.0, 1.0, 0.0]],
            # well conditioned (cond < 6), but ECOS reports the first linearised problem as unbounded from the initial weights: the
            # library must fall back on the previous weights (added after a seeded change that dropped the `value is None` test)
            "M5": [[3.0, 4.0, -1.0, 1.0], [-3.0, -3.0, -4.0, 3.0], [2.0, -2.0, 2.0, 0.0]],
            "M6": [[0.3, 0.06, 0.0, 0.03], [0.03, 0.3, 0.09, 0.0], [0.0, 0.06, 0.3, 0.15]],
        }
    if n_tasks >= 4:  # generic well-conditioned family for 4 and 5 tasks (n_tasks x (n_tasks+1)), plus one ill-scaled member
        k = n_tasks

        def mk(a, b, c):
            return [[(1.0 + a * i if j == i else (b if j == i + 1 else (c if j == (i + 2) % (k + 1) else 0.0))) for j in range(k + 1)] for i in range(k)]

        rows = {"M1": mk(0.1, 0.2, 0.0), "M2": mk(0.3, -0.5, 0.25), "M3": mk(-0.1, 0.4, -0.3),
                "M4": [[(100.0 if i == 0 else (0.01 if i == 1 else 1.0)) if j == i else 0.0 for j in range(k + 1)] for i in range(k)]}
    return {k: torch.tensor(v, dtype=torch.float64) for k, v in rows.items()}


def gen_cases(tier, seed):
    if tier == "quick":
        alpha = ["M1", "M2", "M4", "R"]
        cfgs = [dict(k=2, max_norm=1.0, niter=20, n_tasks=2, L=4), dict(k=1, max_norm=1.0, niter=20, n_tasks=2, L=3),
                dict(k=2, max_norm=0.0, niter=20, n_tasks=2, L=3), dict(k=3, max_norm=0.3, niter=20, n_tasks=2, L=3),
                dict(k=2, max_norm=1.0, niter=1, n_tasks=2, L=3), dict(k=4, max_norm=1.0, niter=20, n_tasks=2, L=3),
                dict(k=2, max_norm=0.3, niter=20, n_tasks=2, L=3, alpha=["M1", "M6", "M2", "R"]),
                dict(k=1, max_norm=1.0, niter=20, n_tasks=3, L=3, alpha=["M1", "M5", "R"]),
                dict(k=2, max_norm=0.0, niter=20, n_tasks=3, L=3, alpha=["M1", "M5", "R"])]
    else:
        alpha = ["M1", "M2", "M3", "M4", "R"]
        cfgs = [dict(k=k, max_norm=mn, niter=ni, n_tasks=2, L=5 if (ni == 20 and mn == 1.0) else 4) for k in (1, 2, 3, 4) for mn in (1.0, 0.3, 0.0)
                for ni in (20, 1)]
        cfgs += [dict(k=k, max_norm=mn, niter=20, n_tasks=3, L=4) for k in (1, 2, 3) for mn in (1.0, 0.0)]
        cfgs += [dict(k=k, max_norm=1.0, niter=20, n_tasks=nt, L=3) for nt in (4, 5) for k in (1, 2)]
        cfgs += [dict(k=k, max_norm=0.3, niter=20, n_tasks=2, L=4, alpha=["M1", "M6", "M2", "M3", "R"]) for k in (2, 3)]
        cfgs += [dict(k=k, max_norm=mn, niter=20, n_tasks=3, L=4, alpha=["M1", "M5", "M2", "M6", "R"]) for k in (1, 2) for mn in (1.0, 0.3)]
    cases = []
    for cfg in cfgs:
        L = cfg.pop("L")
        al = cfg.pop("alpha", alpha)
        for pre in itertools.product(al, repeat=2):
            cases.append(dict(cfg=cfg, alpha=al, L=L, prefix=list(pre), seed=seed))
        for a in al:  # histories of length 1
            cases.append(dict(cfg=cfg, alpha=al, L=1, prefix=[a], seed=seed))
    return cases


def _new(cfg, positional=False, **over):
    from torchjd.aggregation import NashMTL

    c = dict(cfg)
    c.update(over)
    if positional:  # the documented order (n_tasks, max_norm, update_weights_every, optim_niter)
        return NashMTL(c["n_tasks"], c["max_norm"], c["k"], c["niter"])
    return NashMTL(n_tasks=c["n_tasks"], max_norm=c["max_norm"], update_weights_every=c["k"], optim_niter=c["niter"])


_FRESH = {}
_ALPHAS = {}


def _cfgkey(cfg):
    return tuple(sorted(cfg.items()))


def _run_seq(agg, seq, mats):
    """Feeds the matrices named in seq; returns list of (bytes | 'err:..')."""
    out = []
    for name in seq:
        try:
            x = agg(mats[name])
            out.append(x.detach().numpy().copy())
        except Exception as e:
            out.append("err:" + type(e).__name__ + ":" + str(e)[:80])
    return out


def _fresh_outputs(cfg, seq, mats):
    key = (_cfgkey(cfg), tuple(seq))
    if key not in _FRESH:
        _FRESH[key] = _run_seq(_new(cfg), seq, mats)
    return _FRESH[key]


def _ref_alphas(cfg, seq, mats):
    """alpha sequence of a k=1, max_norm=0 reference fed ``seq`` (weights are what weighting() returns when nothing is clipped)."""
    key = (_cfgkey(cfg), tuple(seq))
    if key not in _ALPHAS:
        ref = _new(cfg, k=1, max_norm=0.0)
        out = []
        for name in seq:
            try:
                out.append(ref.weighting(mats[name]).detach().numpy().copy())
            except Exception as e:
                out.append("err:" + type(e).__name__)
        _ALPHAS[key] = out
    return _ALPHAS[key]


def _same(x, y):
    if isinstance(x, str) or isinstance(y, str):
        return isinstance(x, str) and isinstance(y, str) and x.split(":")[1] == y.split(":")[1]
    return x.shape == y.shape and x.tobytes() == y.tobytes()


def run_case(case):
    import warnings

    warnings.filterwarnings("ignore")
    cfg, alpha, L, prefix = case["cfg"], case["alpha"], case["L"], case["prefix"]
    mats = _mats(cfg["n_tasks"])
    viol, outcomes, execs, nontriv = [], set(), 0, 0
    k, mn = cfg["k"], cfg["max_norm"]
    hists = []
    for extra in range(0, L - len(prefix) + 1):
        for tail in itertools.product(alpha, repeat=extra):
            hists.append(prefix + list(tail))
    for h in hists:
        if all(e == "R" for e in h):
            continue
        agg = _new(cfg, positional=True)  # the instance under test is built positionally, the reference instances by keyword
        outs = []
        for e in h:
            if e == "R":
                try:
                    agg.reset()
                    outs.append("reset")
                except Exception as ex:
                    outs.append("err:" + type(ex).__name__)
                    viol.append(dict(sig="reset-raises", msg=f"cfg={cfg} history={h}: {ex!r}"[:300]))
            else:
                outs.extend(_run_seq(agg, [e], mats))
                execs += 1
        hd = f"cfg={cfg} history={h}"
        # (iv) every call succeeds
        errs = [(i, o) for i, o in enumerate(outs) if isinstance(o, str) and o.startswith("err")]
        if errs:
            i, o = errs[0]
            reuse = "reuse" if (len([e for e in h[:i] if e != "R"]) and True) else "first"
            viol.append(dict(sig=f"call-raises:{o.split(':')[1]}", cls=f"call-raises:{o.split(':')[1]}:k={k}",
                             msg=f"{hd}: call #{i} raised {o}"))
            continue
        # segments since last reset
        segs, cur = [], []
        for i, e in enumerate(h):
            if e == "R":
                segs.append(cur)
                cur = []
            else:
                cur.append(i)
        segs.append(cur)
        bad = False
        for si, seg in enumerate(segs):
            if not seg:
                continue
            seq = [h[i] for i in seg]
            # (i) fresh-instance equivalence for every segment (the first segment is trivially fresh: also a determinism check)
            fresh = _fresh_outputs(cfg, seq, mats)
            for j, i in enumerate(seg):
                if not _same(outs[i], fresh[j]):
                    viol.append(dict(sig="after-reset-differs-from-fresh" if si > 0 else "nondeterministic-fresh-instance",
                                     cls=f"reset:{si > 0}:k={k}:niter={cfg['niter']}",
                                     msg=f"{hd}: call #{i} returned {outs[i] if isinstance(outs[i], str) else outs[i].tolist()} but a new instance fed "
                                         f"{seq} returns {fresh[j] if isinstance(fresh[j], str) else fresh[j].tolist()}"[:700]))
                    bad = True
                    break
            if bad:
                break
            # (ii) schedule oracle
            sol_positions = [j for j in range(len(seg)) if j % k == 0]
            alphas = _ref_alphas(cfg, [seq[j] for j in sol_positions], mats)
            for j, i in enumerate(seg):
                a = alphas[j // k]
                if isinstance(a, str):
                    continue
                M = mats[seq[j]].numpy()
                v = a @ M
                nv = float(np.linalg.norm(v))
                if mn > 0 and nv > mn:
                    v = (a / nv * mn) @ M
                got = outs[i]
                tol = 1e-9 * max(1.0, float(np.abs(v).max()))
                if not (float(np.abs(got - v).max()) <= tol):  # NaN-safe
                    viol.append(dict(sig="schedule-mismatch", cls=f"schedule:k={k}:pos={'recompute' if j % k == 0 else 'reuse'}",
                                     msg=f"{hd}: call #{i} (position {j} since reset, k={k}) returned {got.tolist()}, expected "
                                         f"clip(alpha_{j // k}) @ M = {v.tolist()} with alpha={a.tolist()}"[:700]))
                    bad = True
                    break
                # (iii)
                if mn > 0 and float(np.linalg.norm(got)) > mn * (1 + 1e-6):
                    viol.append(dict(sig="norm-exceeds-max-norm", msg=f"{hd}: |output|={float(np.linalg.norm(got))} > {mn}"))
                    bad = True
                    break
            if bad:
                break
        if bad:
            continue
        # observability (non-vacuity): does omitting the resets change anything?
        if "R" in h:
            norst = [e for e in h if e != "R"]
            plain = _fresh_outputs(cfg, norst, mats)
            mine = [o for o in outs if not isinstance(o, str)]
            if any(not _same(x, y) for x, y in zip(mine, plain)):
                nontriv += 1
        elif k > 1 and len(h) > 1:
            nontriv += 1
        outcomes.add(digest([o if isinstance(o, str) else np.round(o, 9).tolist() for o in outs]))
    if len(_FRESH) > 5000:
        _FRESH.clear()
        _ALPHAS.clear()
    return dict(viol=viol, execs=execs, outcomes=sorted(outcomes), nontrivial=nontriv)
