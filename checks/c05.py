"""C05 — with linear aggregators Jacobian descent coincides with torch.autograd (DESIGN §3 C05).

Differential twin: the same program is built twice from equal leaf values; graph A gets
torchjd.backward / mtl_backward with Constant(w) / Sum / Mean, graph B gets torch.autograd.backward with
grad_tensors = w split per tensor. Every leaf's .grad must agree. No hand-written expectation.
"""
from __future__ import annotations

import itertools

import numpy as np

from mc import mtlprogs as M
from mc import programs as P
from mc.runner import digest

SPEC = dict(
    property_id="C05",
    level="model_checking",
    rule=(
        "case = (program, ordered output list) or (trunk, features, heads); executions = every (weight vector | Sum | Mean, "
        "inputs subset | defaulted, chunk size) configuration run on the real torchjd entry point and on torch.autograd on a "
        "twin graph; non-trivial = distinct (case, weight vector) with >= 2 rows and at least one negative or zero weight"
    ),
    bound=dict(
        quick="backward: programs with <= 2 ops (S1 all-grad, S2 depth 1, S1/L1off depth 1), all w in {-1,0,0.5,2}^rows for rows <= 2 (<= 3 at depth 1), "
              "a covering family (every row takes every value) beyond; mtl: 1-op trunks x consecutive head assignments, all w in {-1,0,0.5,2}^tasks; chunk sizes {1,2,m-1,m+1}; "
              "generator inputs; column-major leaves; shared Sum()/Mean() instances; mtl_backward called twice on a retained graph",
        thorough="backward: all scenarios depth <= 2 plus S1 depth 3 (light); mtl: trunks <= 2 ops",
    ),
    assumptions=[
        "an input that influences nothing gets zeros from torchjd (C01) and None from torch.autograd: None is compared as zero",
        "torch.autograd is the oracle (trusted)",
    ],
)

VALS = (-1.0, 0.0, 0.5, 2.0)


def gen_cases(tier, seed):
    cases = []
    if tier == "quick":
        plan = [("S1", "all", 1, True), ("S1", "all", 2, False), ("S2", "all", 1, True), ("S1", "L1off", 1, True), ("S3", "all", 1, True)]
    else:
        plan = [(s, f, d, True) for s in P.SHAPE_SCENARIOS for f in P.FLAG_SCENARIOS for d in (1, 2)] + [("S1", "all", 3, False)]
    for scen, flags, depth, both in plan:
        shapes, req = P.SHAPE_SCENARIOS[scen], P.FLAG_SCENARIOS[flags]
        for prog, outs in P.enum_program_outputs(shapes, req, depth, both_orders=both):
            cases.append(dict(kind="bw", prog=prog, outs=outs, seed=seed, light=depth >= 3, full3=depth <= 1 or tier == "thorough"))
    for scen in ("S1", "S2"):
        for depth in ((1,) if tier == "quick" else (1, 2)):
            for prog, feats in P.enum_program_outputs(P.SHAPE_SCENARIOS[scen], (1, 1, 1), depth, both_orders=(depth == 1)):
                tt = P.Typed(prog)
                if tt.node_nested(feats):
                    continue
                k = len(M.TEMPLATES)
                for nt in (1, 2, 3):
                    for a in range(k):
                        heads = [{"tpl": M.TEMPLATES[(a + i) % k], "f": (i + a) % len(feats)} for i in range(nt)]
                        cases.append(dict(kind="mtl", desc=dict(trunk=prog, feats=feats, heads=heads), seed=seed))
    return cases


def weight_vectors(m, full3=True):
    if m <= 2 or (m == 3 and full3):
        return [list(w) for w in itertools.product(VALS, repeat=m)]
    base = [VALS[(i * 3 + 1) % 4] for i in range(m)]
    out = [base, [2.0] * m, [-1.0 if i % 2 else 0.5 for i in range(m)]]
    for i in range(m):
        for v in VALS:
            w = list(base)
            w[i] = v
            if w not in out:
                out.append(w)
    return out


def _cmp(ga, gb, tol):
    """None is compared as zero. Returns err/tol."""
    if ga is None and gb is None:
        return 0.0
    a = np.zeros(1) if ga is None else ga.detach().double().numpy()
    b = np.zeros(1) if gb is None else gb.detach().double().numpy()
    if ga is not None and gb is not None and a.shape != b.shape:
        return np.inf
    sc = max(1.0, float(np.abs(b).max()), float(np.abs(a).max()))
    return float(np.abs(a - b).max()) / (tol * sc)


_SHARED = {}


def _shared(name):
    """ONE Sum() and ONE Mean() instance per worker process, reused over all cases (row counts go up and down between cases): an
    aggregator whose result depends on earlier calls - e.g. cached weights re-used for a smaller matrix - disagrees with autograd."""
    from torchjd.aggregation import Mean, Sum

    if name not in _SHARED:
        _SHARED[name] = Sum() if name == "sum" else Mean()
    return _SHARED[name]


def _run_bw(case):
    import torch
    from torchjd import backward
    from torchjd.aggregation import Constant, Mean, Sum

    from mc.seams import SetOrderSeam

    prog, outs, seed = case["prog"], case["outs"], case["seed"]
    t = P.Typed(prog)
    lv = P.leaf_values(t.shapes[: t.nleaves], seed)
    leaves = [i for i in range(t.nleaves) if t.req[i]]
    m = sum(t.numel(o) for o in outs)
    cfgs = []
    ws = weight_vectors(m, case.get("full3", True))
    if case["light"]:
        ws = ws[:: max(1, len(ws) // 6)]
    for w in ws:
        cfgs.append((w, "all", None))
    cfgs.append(("sum", "all", None))
    cfgs.append(("mean", None, 2))
    spread = ws[len(ws) // 2]
    for r in range(1, len(leaves) + 1):
        for sub in itertools.combinations(leaves, r):
            cfgs.append((spread, list(sub), 1 if r % 2 else None))
    for k in sorted({1, 2, max(1, m - 1), m + 1}):
        cfgs.append((ws[-1], None, k))
        cfgs.append(("sum", "all", k))
    cfgs.append((spread, "gen", None))  # inputs given as a one-shot iterator
    viol, outcomes, execs, nontriv, worst = [], set(), 0, 0, 0.0
    for ci, (w, inputs, chunk) in enumerate(cfgs):
        lay = "f" if ci % 3 == 1 else "c"  # every third configuration: column-major (dense, non-contiguous) leaves
        A = P.build_torch(prog, lv, layout=lay)
        B = P.build_torch(prog, lv, layout=lay)
        gen = inputs == "gen"
        if inputs in ("all", "gen"):
            inputs = leaves
        if w == "sum":
            agg, wv = _shared("sum"), [1.0] * m
        elif w == "mean":
            agg, wv = _shared("mean"), [1.0 / m] * m
        else:
            agg, wv = Constant(torch.tensor(w, dtype=torch.float64)), w
        for i in leaves:
            if (i + ci) % 2 == 0:
                A[i].grad = torch.full_like(A[i], 0.5 + i)
                B[i].grad = torch.full_like(B[i], 0.5 + i)
        cfg = f"w={w} inputs={inputs} chunk={chunk}"
        # every set(...) built inside torchjd.autojac iterates in listing order (even configurations) or reversed (odd ones)
        sgn = 1 if ci % 2 == 0 else -1
        rank = {id(A[v]): sgn * v for v in range(t.nvalues)}
        try:
            with SetOrderSeam(lambda x: rank.get(id(x), 10 ** 6)):
                backward([A[o] for o in outs], agg, inputs=None if inputs is None else ((A[l] for l in inputs) if gen else [A[l] for l in inputs]),
                         parallel_chunk_size=chunk)
        except Exception as e:
            viol.append(dict(sig=f"exception:bw:{type(e).__name__}", msg=f"{P.prog_str(prog, outs)} | {cfg} | {e!r}"[:600]))
            execs += 1
            continue
        gts, off = [], 0
        for o in outs:
            n = t.numel(o)
            gts.append(torch.tensor(wv[off:off + n], dtype=torch.float64).reshape(t.shapes[o]))
            off += n
        torch.autograd.backward([B[o] for o in outs], grad_tensors=gts, inputs=None if inputs is None else [B[l] for l in inputs])
        execs += 1
        bad = None
        for i in range(t.nleaves):
            e = _cmp(A[i].grad, B[i].grad, 1e-11)
            worst = max(worst, min(e, 1e9))
            if not (e <= 1):  # NaN-safe
                bad = f"leaf {i}: torchjd {None if A[i].grad is None else A[i].grad.tolist()} autograd {None if B[i].grad is None else B[i].grad.tolist()}"
                break
        if bad:
            viol.append(dict(sig="differs-from-autograd:backward", cls=f"bw:{'default' if inputs is None else 'explicit'}:{chunk}:{w if isinstance(w, str) else 'const'}",
                             msg=f"{P.prog_str(prog, outs)} | {cfg} | {bad}"[:800]))
            continue
        if m >= 2 and not isinstance(w, str) and min(w) <= 0:
            nontriv += 1
        outcomes.add(digest([None if A[i].grad is None else np.round(A[i].grad.numpy(), 6).tolist() for i in range(t.nleaves)]))
    return dict(viol=viol, execs=execs, outcomes=sorted(outcomes), nontrivial=nontriv, margin=worst, maxima={"backward": worst})


def _run_mtl(case):
    import torch
    from torchjd import mtl_backward
    from torchjd.aggregation import Constant, Mean, Sum

    desc, seed = case["desc"], case["seed"]
    nt = len(desc["heads"])
    around = M.uses_around(desc)
    ws = [list(w) for w in itertools.product(VALS, repeat=nt)]
    cfgs = [(w, "explicit", None) for w in ws] + [("sum", "explicit", 1), ("mean", "explicit", 2)]
    if not around:
        cfgs += [(ws[len(ws) // 2], "default", None), ("sum", "default", 2), (ws[-2], "default", 1)]
    # the same call twice with retain_graph=True: the twin's gradients twice (the graph must really have been retained everywhere)
    cfgs += [(ws[1 % len(ws)], "explicit", None, 2), ("mean", "explicit", 1, 2)]
    viol, outcomes, execs, nontriv, worst = [], set(), 0, 0, 0.0
    for ci, cfg_ in enumerate(cfgs):
        w, mode, chunk = cfg_[:3]
        reps = cfg_[3] if len(cfg_) > 3 else 1
        A = M.build_torch(desc, seed)
        t = A["ref"].t
        grad_leaves = [i for i in range(t.nleaves) if t.req[i]]
        if w == "sum":
            agg, wv = _shared("sum"), [1.0] * nt
        elif w == "mean":
            agg, wv = _shared("mean"), [1.0 / nt] * nt
        else:
            agg, wv = Constant(torch.tensor(w, dtype=torch.float64)), w
        cfg = f"w={w} params={mode} chunk={chunk}" + (f" called {reps}x with retain_graph=True" if reps > 1 else "")
        where = f"{P.prog_str(desc['trunk'])} feats={desc['feats']} heads={[(h['tpl'], h['f']) for h in desc['heads']]} | {cfg}"
        try:
            for _ in range(reps):
                mtl_backward(losses=A["losses"], features=A["feats"], aggregator=agg,
                             tasks_params=None if mode == "default" else A["tparams"],
                             shared_params=None if mode == "default" else [A["vals"][l] for l in grad_leaves],
                             parallel_chunk_size=chunk, retain_graph=reps > 1)
        except Exception as e:
            viol.append(dict(sig=f"exception:mtl:{type(e).__name__}", msg=f"{where} | {e!r}"[:600]))
            execs += 1
            continue
        # twin B: trunk graph, features re-attached so that only paths through the features reach the trunk
        Bt = P.build_torch(desc["trunk"], A["ref"].lv)
        featsB = [Bt[v] for v in desc["feats"]]
        cut = [f.detach().requires_grad_(True) for f in featsB]
        lossesB, tparamsB = _heads_on(desc, cut, Bt, A["ref"])
        cot = [torch.zeros_like(c) for c in cut]
        for i, L in enumerate(lossesB):
            own = [p for p in tparamsB[i]]
            gs = torch.autograd.grad(L, cut, retain_graph=True, allow_unused=True)
            if own:
                L.backward(inputs=own, retain_graph=True)  # what loss_i.backward(inputs=task_params_i) gives
            for k, g in enumerate(gs):
                if g is not None:
                    cot[k] = cot[k] + wv[i] * g
        shared_inputs = [Bt[l] for l in grad_leaves]
        torch.autograd.backward(featsB, grad_tensors=cot, inputs=shared_inputs)
        execs += 1
        if reps > 1:
            seen_ids = set()
            for q in [Bt[l] for l in range(t.nleaves)] + [p for tp_ in tparamsB for p in tp_]:
                if q.grad is not None and id(q) not in seen_ids:
                    seen_ids.add(id(q))
                    q.grad.mul_(reps)
        bad = None
        for l in range(t.nleaves):
            e = _cmp(A["vals"][l].grad, Bt[l].grad, 1e-11)
            worst = max(worst, min(e, 1e9))
            if not (e <= 1):  # NaN-safe
                bad = f"shared leaf {l}: torchjd {A['vals'][l].grad} autograd {Bt[l].grad}"
                break
        if not bad:
            seenU = False
            for i in range(nt):
                for n_, pa, pb in zip(A["tnames"][i], A["tparams"][i], tparamsB[i]):
                    if n_ == "U":
                        if seenU:
                            continue
                        seenU = True
                    e = _cmp(pa.grad, pb.grad, 1e-11)
                    worst = max(worst, min(e, 1e9))
                    if not (e <= 1):  # NaN-safe
                        bad = f"task {i} param {n_}: torchjd {pa.grad} autograd {pb.grad}"
                        break
                if bad:
                    break
        if bad:
            viol.append(dict(sig="differs-from-autograd:mtl_backward", cls=f"mtl:{mode}:{chunk}", msg=f"{where} | {bad}"[:800]))
            continue
        if nt >= 2 and not isinstance(w, str) and min(w) <= 0:
            nontriv += 1
        outcomes.add(digest([None if A["vals"][l].grad is None else np.round(A["vals"][l].grad.numpy(), 6).tolist() for l in range(t.nleaves)]))
    return dict(viol=viol, execs=execs, outcomes=sorted(outcomes), nontrivial=nontriv, margin=worst, maxima={"mtl": worst})


def _heads_on(desc, feats, vals, ref):
    """Builds the heads of ``desc`` on the given feature tensors (twin side)."""
    import torch

    U = torch.tensor(ref.pool_U, dtype=torch.float64, requires_grad=True)
    losses, tparams = [], []
    for i, h in enumerate(desc["heads"]):
        x = feats[h["f"]]
        p = {}
        for name, val in ref.params[i]:
            p[name] = U if name == "U" else torch.tensor(val, dtype=torch.float64, requires_grad=True)
        tpl = h["tpl"]
        if tpl == "H1":
            L = (x * p["t"]).sum()
        elif tpl == "H2":
            L = x.sum() * p["t0"] + p["t1"].sum()
        elif tpl == "H3":
            L = (x.sin() * p["t"]).sum()
        elif tpl == "H4":
            L = (x * x).sum()
        elif tpl == "H5":
            g = 1 - h["f"] if len(feats) > 1 else h["f"]
            L = (x * p["t"]).sum() + feats[g].sum()
        elif tpl == "H6":
            L = (x * p["t"]).sum() * p["U"]
        elif tpl == "H7":
            L = (x * p["t"]).sum() + (vals[ref.around_leaf].detach() * 3.0).sum()
        elif tpl == "H8":
            L = x.sum() * p["t0"] * p["t0"]
        elif tpl == "H9":
            L = (p["t"] * p["t"]).sum()
        losses.append(L)
        tparams.append([p[n] for n, _ in M.PARAMS[tpl]])
    return losses, tparams


def run_case(case):
    return _run_bw(case) if case["kind"] == "bw" else _run_mtl(case)
