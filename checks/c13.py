"""C13 — retain_graph means what it means in torch.autograd (DESIGN §3 C13).

E-hist with a differential twin: every history of <= 3 events (torchjd call with (chunk size, retain_graph) or a
plain torch.autograd.backward) on one graph; a twin graph receives the same history with every torchjd call
replaced by torch.autograd.backward over the same segment with the same flag. After the history, per-segment
probes (each output / each head alone, the trunk alone, everything) are run on both graphs. The ok/fail outcome
of every event and every probe, and all final .grad, must coincide.
"""
from __future__ import annotations

import itertools

import numpy as np

from mc.runner import digest

SPEC = dict(
    property_id="C13",
    level="model_checking",
    rule=(
        "state = (graph, history of events); transition = one real call (torchjd.backward / mtl_backward / torch.autograd.backward) "
        "on the graph under test and its counterpart on the twin; every history of <= 3 events over the event alphabet is explored "
        "(a history stops at the first event that fails on both sides); non-trivial = distinct histories that reach a freed or "
        "partially freed graph (at least one probe or event fails on the twin)"
    ),
    bound=dict(
        quick="15 graphs (5 backward incl. a one-row Jacobian, 9 trunk/heads incl. a task without parameters, a regulariser loss, two feature tensors, an empty shared list, 1 wide; with/without saved tensors), single-loss mtl; events: torchjd call with k in {None,1,2,m} x retain in {F,T}, "
              "autograd.backward with retain in {F,T}; all histories of length <= 3 (length 3 restricted to k in {None,1})",
        thorough="all histories of length <= 3 over the full alphabet and of length 4 with k in {None,1,2}; m in {2,3,4}",
    ),
    assumptions=[
        "linear aggregator (Sum) so that torch.autograd.backward is an exact twin",
        "heads share no graph node besides the features; no path around the features",
        "after an event that fails on both sides the state is implementation-defined: the history is not extended",
    ],
)

DETERMINISM_SLICE = 12
BW_GRAPHS = ("saved", "nosaved", "mixed", "shared-trunk", "single-row")
WIDE_M = 300
MTL_GRAPHS = ("saved-saved", "nosaved-nosaved", "saved-nosaved", "nosaved-saved", "saved-penalty", "saved-regulariser", "saved-noparams",
              "saved2-saved", "saved-noshared")


def _events(tier, length_total, m):
    if tier == "thorough":
        ks = [None, 1, 2, m] if length_total <= 3 else [None, 1, 2]
    else:
        ks = [None, 1, 2, m] if length_total <= 2 else [None, 1]
    ks = list(dict.fromkeys(ks))
    ev = [("T", k, r) for k in ks for r in (False, True)] + [("A", None, r) for r in (False, True)]
    return ev


def gen_cases(tier, seed):
    cases = []
    ms = (2, 3, 4) if tier == "thorough" else (3,)
    for ep, graphs in (("bw", BW_GRAPHS), ("mtl", MTL_GRAPHS)):
        for g in graphs:
            for m in ms:
                for L in ((1, 2, 3) if tier == "quick" else (1, 2, 3, 4)):
                    ev = _events(tier, L, m)
                    hs = list(itertools.product(range(len(ev)), repeat=L))
                    # one case = a block of histories sharing the first event
                    for first in range(len(ev)):
                        block = [h for h in hs if h[0] == first]
                        cases.append(dict(ep=ep, graph=g, m=m, L=L, hist=[[list(ev[i]) for i in h] for h in block], seed=seed))
    # a single loss (one-row Jacobian; added after a seeded change: a one-row shortcut that forgot the flag)
    for g in ("saved-saved", "saved-nosaved"):
        for L in (1, 2, 3):
            ev = _events(tier, L, 1)
            hs = list(itertools.product(range(len(ev)), repeat=L))
            cases.append(dict(ep="mtl", graph=g, m=1, L=L, hist=[[list(ev[i]) for i in h] for h in hs], seed=seed))
    # 300 rows in one sweep (added after a seeded change - vmap's own sub-chunking capped at 256 rows, so that the last sweep ran
    # twice with the caller's flag - was missed): histories of <= 2 events, k in {None, 7, 300, 1000}
    ev = [("T", k, r) for k in (None, 7, WIDE_M, 1000) for r in (False, True)] + [("A", None, False)]
    for first in ev:
        hist = [[list(first)]] + [[list(first), list(e)] for e in ev]
        cases.append(dict(ep="bw", graph="wide", m=WIDE_M, L=2, hist=hist, seed=seed))
    return cases


# ----------------------------------------------------------------------------- graphs
def _bw_graph(kind, m):
    import torch

    a = torch.tensor([0.7, -1.3, 2.1][:m] + [0.4] * max(0, m - 3), dtype=torch.float64, requires_grad=True)
    b = torch.tensor(1.5, dtype=torch.float64, requires_grad=True)
    if kind == "wide":
        a = torch.linspace(-1.0, 2.0, m, dtype=torch.float64).requires_grad_()
        outs = [a * a * b]
    elif kind == "single-row":  # ONE 0-d output: the Jacobian has a single row
        outs = [(a * a * b).sum()]
    elif kind == "saved":
        outs = [a * b, (a * a).sum()]
    elif kind == "nosaved":
        outs = [a + b, a.sum() + 2 * b]
    elif kind == "mixed":
        h = a * b
        outs = [h.sum(), (h * h).sum()]
    else:  # shared trunk with saved tensors feeding two output tensors of which one saves nothing itself
        h = torch.sin(a) * b
        outs = [h + 1.0, h.sum() * b]
    return dict(params=[a, b], outs=outs)


def _mtl_graph(kind, m):
    import torch

    a = torch.tensor([0.7, -1.3, 2.1], dtype=torch.float64, requires_grad=True)
    b = torch.tensor(1.5, dtype=torch.float64, requires_grad=True)
    trunk, head = kind.split("-")
    noshared = head == "noshared"  # explicit shared_params=[]: only the heads are differentiated (and freed or not, as asked)
    if noshared:
        head = "saved"
    f = a * b if trunk in ("saved", "saved2") else a + b
    f2 = torch.sin(a) * b if trunk == "saved2" else None  # a SECOND feature tensor (with saved tensors of its own)
    ps, losses, extras = [], [], []
    for i in range(m):
        p = torch.tensor([0.5 + i, -1.0, 2.0 - i], dtype=torch.float64, requires_grad=True)
        ps.append(p)
        if head == "noparams" and i == m - 1:  # the LAST task has no parameter of its own; its loss saves tensors
            ps.pop()
            ps.append(None)
            losses.append((f * f).sum())
            continue
        if head == "noparams":
            losses.append((f * p).sum())
            continue
        if head == "regulariser" and i == m - 1:  # the LAST loss ignores the features (pure regulariser): its Jacobian row is zero
            losses.append((p * p).sum())
            continue
        if head == "regulariser":
            losses.append((f * p).sum())
            continue
        if head == "penalty":  # a parameter-only branch with saved tensors next to the branch through the features
            pen = (p * p).sum()
            losses.append((f * p).sum() + pen)
            extras.append((f"penalty{i}", pen, [p]))
        else:
            losses.append(((f * p).sum() if head == "saved" else (f + p).sum()) + (0 if f2 is None else (f2 * f2 * p).sum()))
    if noshared:
        return dict(params=[a, b], shared_arg=[], feats=[f], losses=losses, tparams=[[p] for p in ps], extras=extras)
    return dict(params=[a, b], feats=[f] if f2 is None else [f, f2], losses=losses, tparams=[[p] if p is not None else [] for p in ps], extras=extras)


def _try(fn):
    try:
        fn()
        return "ok"
    except Exception as e:
        return "err:" + type(e).__name__


def _apply(ep, G, ev, torchjd_side):
    import torch
    from torchjd import backward, mtl_backward
    from torchjd.aggregation import Sum

    kind, k, r = ev
    if ep == "bw":
        allp = G["params"]
        if kind == "T" and torchjd_side:
            # positional form of the documented signature (tensors, aggregator, inputs, retain_graph, parallel_chunk_size)
            return _try(lambda: backward(G["outs"], Sum(), allp, r, k))
        gts = [torch.ones_like(o) for o in G["outs"]]
        return _try(lambda: torch.autograd.backward(G["outs"], grad_tensors=gts, inputs=allp, retain_graph=r))
    shared = G.get("shared_arg", G["params"])
    allp = shared + [p for tp in G["tparams"] for p in tp]
    if kind == "T" and torchjd_side:
        # positional form (losses, features, aggregator, tasks_params, shared_params, retain_graph, parallel_chunk_size)
        return _try(lambda: mtl_backward(G["losses"], G["feats"], Sum(), G["tparams"], shared, r, k))
    return _try(lambda: torch.autograd.backward(G["losses"], inputs=allp, retain_graph=r))


def _probes(ep, G):
    import torch

    out = []
    if ep == "bw":
        for i, o in enumerate(G["outs"]):
            out.append((f"out{i}", _try(lambda o=o: torch.autograd.grad(o, G["params"], grad_outputs=torch.ones_like(o), retain_graph=True, allow_unused=True))))
        out.append(("full", _try(lambda: torch.autograd.grad(G["outs"], G["params"], grad_outputs=[torch.ones_like(o) for o in G["outs"]],
                                                                 retain_graph=True, allow_unused=True))))
    else:
        for i, L in enumerate(G["losses"]):
            out.append((f"head{i}", _try(lambda L=L: torch.autograd.grad(L, G["feats"], retain_graph=True, allow_unused=True))))
            if G["tparams"][i]:
                out.append((f"headparam{i}", _try(lambda L=L, i=i: torch.autograd.grad(L, G["tparams"][i], retain_graph=True, allow_unused=True))))
        out.append(("trunk", _try(lambda: torch.autograd.grad(G["feats"], G["params"], grad_outputs=[torch.ones_like(f) for f in G["feats"]],
                                                                  retain_graph=True, allow_unused=True))))
        out.append(("full", _try(lambda: torch.autograd.grad(G["losses"], G["params"], grad_outputs=[torch.ones_like(L) for L in G["losses"]],
                                                                 retain_graph=True, allow_unused=True))))
        for name, t_, ins in G.get("extras", []):
            out.append((name, _try(lambda t_=t_, ins=ins: torch.autograd.grad(t_, ins, retain_graph=True, allow_unused=True))))
    return out


def _grads(ep, G):
    ps = G["params"] + ([p for tp in G["tparams"] for p in tp] if ep == "mtl" else [])
    return [None if p.grad is None else p.grad.detach().numpy().copy() for p in ps]


def run_case(case):
    ep, m = case["ep"], case["m"]
    build = (lambda: _bw_graph(case["graph"], m)) if ep == "bw" else (lambda: _mtl_graph(case["graph"], m))
    viol, outcomes, execs, nontriv = [], set(), 0, 0
    for hist in case["hist"]:
        A, B = build(), build()
        trace = []
        bad = None
        for ev in hist:
            ra = _apply(ep, A, ev, True)
            rb = _apply(ep, B, ev, False)
            execs += 2
            trace.append((tuple(ev), ra, rb))
            if (ra == "ok") != (rb == "ok"):
                bad = f"event {ev}: torchjd side {ra}, autograd twin {rb}"
                break
            if ra != "ok":
                break  # failed on both sides: state is implementation-defined from here on
        hdesc = f"{ep}:{case['graph']} m={m} history={[tuple(e) for e in hist]}"
        if bad:
            viol.append(dict(sig=f"event-outcome-differs:{ep}", cls=f"event:{ep}:{case['graph']}:{ra[:3]}", msg=f"{hdesc}: {bad}"))
            continue
        failed_tail = trace and trace[-1][1] != "ok"
        if not failed_tail:
            pa, pb = _probes(ep, A), _probes(ep, B)
            execs += len(pa) + len(pb)
            diff = [(n, x, y) for (n, x), (_, y) in zip(pa, pb) if (x == "ok") != (y == "ok")]
            if diff:
                viol.append(dict(sig=f"probe-outcome-differs:{ep}", cls=f"probe:{ep}:{case['graph']}:{diff[0][0][:4]}:{diff[0][1][:3]}",
                                 msg=f"{hdesc}: probes (name, torchjd side, twin) {diff}"))
                continue
            ga, gb = _grads(ep, A), _grads(ep, B)
            for i, (x, y) in enumerate(zip(ga, gb)):
                if (x is None) != (y is None) or (x is not None and not (float(np.abs(x - y).max()) <= 1e-10 * max(1.0, float(np.abs(y).max())))):
                    viol.append(dict(sig=f"final-grad-differs:{ep}", cls=f"grad:{ep}:{case['graph']}",
                                     msg=f"{hdesc}: param {i}: torchjd side {None if x is None else x.tolist()} twin {None if y is None else y.tolist()}"))
                    break
            if any(y != "ok" for _, y in pb):
                nontriv += 1
            outcomes.add(digest([case["graph"], [t[2] for t in trace], [y for _, y in pb]]))
        else:
            nontriv += 1
            outcomes.add(digest([case["graph"], [t[2] for t in trace], "failed"]))
    return dict(viol=viol, execs=execs, outcomes=sorted(outcomes), nontrivial=nontriv)
