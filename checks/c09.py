"""C09 — linear under scaling: c -> A(diag(c) J) is linear on positive vectors (DESIGN §3 C09).

E-enum over matrices x triples (c1, c2, (a, b)) x aggregator configurations; PCGrad and Random under EVERY replayed
draw schedule (itertools product over all randperm results / over the randn alphabet {-2,0,3}^m), the same schedule in
the three calls of a triple.

Oracles
    exact aggregators (Mean, Sum, Constant, ConFIG, PCGrad, Random):
        |A(diag(a c1 + b c2) J) - a A(diag(c1) J) - b A(diag(c2) J)|_inf <= 1e-9 * S,   S = max sigma_max of the three matrices
    UPGrad, reg ladder 1e-4 .. 1e-12 (float64, norm_eps tiny): the PROVEN bound with constant 1
        defect_2 <= sqrt(reg) * (S0*W0 + a*S1*W1 + b*S2*W2) + 1e-9*S
      where Sk = sigma_max of the k-th matrix and Wk = sum_i |v0_k^(i)|_2 are the UNREGULARISED projection weights of the
      exact active-set reference on the normalised Gramian (full row rank inputs only).
      Proof: v* regularised, v0 unregularised optimum on the same feasible set {v >= u_i e_i}, G^ = M M^T / s^2.
      Optimality of v* for the regularised objective: v*'G^v* - v0'G^v0 <= eps(|v0|^2 - |v*|^2) <= eps |v0|^2. Exact second
      order expansion at the constrained minimiser v0 (first order term >= 0): (v*-v0)'G^(v*-v0) <= v*'G^v* - v0'G^v0.
      Hence |M'(v*-v0)| = s sqrt((v*-v0)'G^(v*-v0)) <= s sqrt(eps) |v0|; summing over the m projections gives
      |A_eps(M) - A_0(M)| <= sqrt(eps) s W, and A_0 is exactly linear in c (the dual cone does not depend on c > 0).
"""
from __future__ import annotations

import itertools
import math

import numpy as np

from mc import alphabets as A
from mc import refmodels as R
from mc.generic import generic
from mc.runner import HarnessError, digest

SPEC = dict(
    property_id="C09",
    level="exploration",
    rule=(
        "case = block of matrices x one aggregator family; evaluation = one triple (c1, c2, (a,b)) for one matrix, one "
        "aggregator configuration and one replayed draw schedule: three executions of the real aggregator on diag(c) J "
        "(results shared between triples) compared through the linearity identity; non-trivial = evaluations whose c1 and c2 "
        "are not proportional and, for PCGrad / UPGrad, whose matrix has a negative Gramian entry (a projection happens), for "
        "ConFIG, whose matrix has >= 2 non-parallel rows"
    ),
    bound=dict(
        quick=(
            "exact family: all {-1,0,1} 2x2 without zero rows, structural sublist canonical_ternary of 2x3 and 3x2, D(seed) and G(seed) 3x4, full "
            "triples (c1 in L3^m u L1^m u L2^m, c2 in {1, reversed c1}, (a,b) in 3 pairs); PCGrad: m=2 all 4 schedules x full triples, "
            "m=3 all 216 schedules x light triples on canonical 3x2 with conflicts; Random: {-2,0,3}^m x light triples; UPGrad: reg "
            "ladder x 4 pref vectors x light triples on full-row-rank 2x2, canonical 2x3, 40 canonical 3x3, D(seed) 2x3, 4 of G(seed) 3x4 (mc/generic.py: D(seed) is rank 2 up to rounding for m, n >= 3); special families: ill-conditioned "
            "(cond 50-200), matrices scaled by 0.05 and 0.002 (sigma_max around norm_eps), an 8x5000 matrix, ConFIG at global scales 1e6/1e-13, native-seed PCGrad/Random "
            "(float64 and float32, one row 1e4-1e5 times smaller/larger), buffer re-use histories"
        ),
        thorough=(
            "exact family: all 2x2, 2x3, 3x2 without zero rows, canonical 3x3, D(seed) 2x3, 3x4, G(seed) 3x4; PCGrad: all 2x2, 2x3 x 4 schedules x full "
            "triples, all conflicting 3x2 and canonical conflicting 3x3 x 216 schedules x light triples, canonical 3x2 x 8 effective "
            "schedules x full triples; UPGrad: all full-row-rank 2x2 (full triples), 2x3, canonical 3x3, D(seed) 2x3, G(seed) 3x4 (light triples); PCGrad 216 schedules also on conflicting G(seed) 3x4"
        ),
    ),
    assumptions=[
        "matrices off the finite alphabets and scalings off the ladders L3 (6 orders of magnitude), L1, L2 are not covered; float64 only",
        "ConFIG only on inputs whose unit rows have unambiguous rank and |pinv(units) w| >= 1e-6 |w| (it normalises that vector)",
        "UPGrad only on full-row-rank inputs (unique unregularised projection weights), reference KKT residual <= 1e-6",
        "Random's continuous draw is replayed from the alphabet {-2,0,3}^m",
    ],
    min_outcomes=50,
    min_nontrivial=50,
)

DETERMINISM_SLICE = 8
REGS = [1e-4, 1e-6, 1e-8, 1e-10, 1e-12]
AB = [(0.5, 2.0), (1.0, 1.0), (3.0, 0.25)]
CW = [(1.0, -2.0, 0.0, 3.0), (0.5, 0.25, 4.0, 1.0)]


# ----------------------------------------------------------------------------- triples
def c1_full(m):
    out, seen = [], set()
    for L in (A.L3, A.L1, A.L2):
        for c in itertools.product(L, repeat=m):
            if c not in seen:
                seen.add(c)
                out.append(c)
    return out


def c1_light(m):
    out = [c for c in itertools.permutations(A.L3[:m] if m <= 3 else A.L3 + (1.0,) * (m - 3))]
    if m == 2:
        out = [(1e-3, 1e3), (1e3, 1e-3), (1e-3, 1.0), (1.0, 1e3)]
    out += [tuple(A.L2[i % 2] for i in range(m)), tuple(A.L1[(2 * i) % 3] for i in range(m))]
    seen, res = set(), []
    for c in out:
        if c not in seen:
            seen.add(c)
            res.append(c)
    return res


def triples(m, level):
    """[(c1, c2, a, b)]; c2 in {ones, reversed c1} (the reversed vector only when it differs from c1)."""
    out = []
    if level == "wide":  # a handful of scalings for the tall-and-wide matrices
        full = c1_light(m)
        c1s = full[:3] + full[-2:]
    elif level == "mild":  # mild, non-uniform scalings only (ladders L2 = {0.5, 2} and L1 = {0.1, 1, 10})
        c1s = [c for c in itertools.product(A.L2, repeat=m) if len(set(c)) > 1] + [c for c in itertools.product(A.L1, repeat=m) if len(set(c)) > 1]
    else:
        c1s = c1_full(m) if level == "full" else c1_light(m)
    for c1 in c1s:
        c2s = [tuple([1.0] * m)]
        if c1[::-1] != c1:
            c2s.append(c1[::-1])
        for c2 in c2s:
            for a, b in AB:
                out.append((c1, c2, a, b))
    return out


def _c0(c1, c2, a, b):
    return tuple((a * np.array(c1) + b * np.array(c2)).tolist())


# ----------------------------------------------------------------------------- cases
def _blocks(n, size):
    return [(lo, min(n, lo + size)) for lo in range(0, n, size)]


_LISTS = {}


def _nozero(M):
    return bool((np.abs(M).sum(axis=1) > 0).all())


def _conflict(M):
    return bool((M @ M.T < 0).any())


def _fullrank(M):
    return M.shape[0] <= M.shape[1] and np.linalg.matrix_rank(M) == M.shape[0]


def mats(src, m, n, seed):
    """Named, deterministic matrix lists (zero rows excluded: c -> diag(c) J ignores them anyway and ConFIG's unit rows need them non-zero)."""
    k = (src, m, n, seed if src.startswith(("dense", "generic")) else 0)
    if k not in _LISTS:
        if src.startswith("widetall"):
            # more than 6 rows and thousands of columns (added after a seeded change: a rank-6 randomised SVD above 4096 columns): a generic
            # well-conditioned m x m factor times m orthonormal rows spread over all n columns
            i, j = np.meshgrid(np.arange(m), np.arange(m), indexing="ij")
            B = np.round(np.sin(1.7 * i + 0.9 * j + 0.3) + 2.0 * (i == j), 3)
            E = np.zeros((m, n))
            for r in range(m):
                E[r, r::m] = 1.0 / math.sqrt(len(range(r, n, m)))
            L = [B @ E]
        elif src.startswith("illcond"):
            # full row rank, condition number 50-200, mild entries (added after a seeded change - the Gramian rounded to float32 before
            # the QP - was missed: its effect needs cond >= 1e2 and mild scalings)
            L = []
            for d in (0.02, 0.05):
                L.append(np.array([[1.0, 0.0], [1.0, d]]))
                L.append(np.array([[1.0, 1.0, 0.0], [1.0, 1.0 + d, 0.0]]))
                if m == 3:
                    L[-2:] = [np.array([[1.0, 0.0, 0.0], [1.0, d, 0.0], [0.0, 0.5, 1.0]]), np.array([[1.0, 1.0, 0.0], [1.0, 1.0 + d, 0.0], [-1.0, 0.0, 1.0]])]
            L = [M for M in L if M.shape == (m, n)]
        elif src.startswith("dense"):
            L = A.dense(seed, m, n, 8)
        elif src.startswith("generic"):
            L = generic(seed, m, n, 8)
        else:
            L = list(A.ternary(m, n)) if src.startswith("all") else A.canonical_ternary(m, n)
            L = [M for M in L if _nozero(M)]
        if src.endswith("-conflict"):
            L = [M for M in L if _conflict(M)]
        if src.endswith("-fullrank"):
            L = [M for M in L if _fullrank(M)]
        if src.endswith("-frconf"):
            L = [M for M in L if _fullrank(M) and _conflict(M)]
        _LISTS[k] = L
    return _LISTS[k]


def gen_cases(tier, seed):
    cases = []

    def add(fam, src, m, n, size, level, **kw):
        N = len(mats(src, m, n, seed))
        if "first" in kw:
            N = min(N, kw.pop("first"))
        for lo, hi in _blocks(N, size):
            cases.append(dict(fam=fam, src=src, m=m, n=n, lo=lo, hi=hi, level=level, seed=seed, **kw))

    T = tier == "thorough"
    # PCGrad with all 216 schedules first (the most expensive cases)
    if T:
        add("pcgrad", "all-conflict", 3, 2, 1, "light")
        add("pcgrad", "canon-conflict", 3, 3, 1, "light")
        add("pcgrad", "canon-conflict", 3, 2, 2, "full", sched="effective")
        add("pcgrad", "generic-conflict", 3, 4, 1, "light")
    else:
        add("pcgrad", "canon-conflict", 3, 2, 1, "light")
    for (m, n) in [(2, 2), (2, 3)]:
        add("pcgrad", "all" if T or (m, n) == (2, 2) else "canon", m, n, 6, "full")
    # exact family
    add("exact", "all", 2, 2, 6, "full")
    add("exact", "all" if T else "canon", 2, 3, 6, "full")
    add("exact", "all" if T else "canon", 3, 2, 2, "full")
    if T:
        add("exact", "canon", 3, 3, 2, "full")
        add("exact", "dense", 2, 3, 4, "full")
    add("exact", "dense", 3, 4, 2, "full")
    add("exact", "generic", 3, 4, 2, "full")
    # Random
    for (m, n) in [(2, 2), (2, 3), (3, 2)]:
        add("random", "all" if T or (m, n) == (2, 2) else "canon", m, n, 8, "light")
    # UPGrad
    add("upgrad", "all-fullrank", 2, 2, 3, "full" if T else "light")
    add("upgrad", "all-fullrank" if T else "canon-fullrank", 2, 3, 3, "light")
    if T:
        add("upgrad", "canon-fullrank", 3, 3, 2, "light")
        add("upgrad", "generic-fullrank", 3, 4, 2, "light")
    else:
        add("upgrad", "canon-frconf", 3, 3, 2, "light", first=40)
        add("upgrad", "generic-fullrank", 3, 4, 2, "light", first=4)
    add("upgrad", "dense-fullrank", 2, 3, 2, "light")
    for k_ in range(2):
        cases.append(dict(fam="native-seed", k=k_, seed=seed))
    for (m_, n_) in ((2, 2), (2, 3), (3, 3)):
        add("upgrad", "illcond", m_, n_, 1, "mild")
    add("upgrad", "widetall", 8, 5000, 1, "wide")
    cases.append(dict(fam="bufreuse", seed=seed))  # one instance, one matrix buffer re-scaled / re-filled in place (mc/bufreuse.py)
    return cases


# ----------------------------------------------------------------------------- running the real code
class Runner:
    """Evaluates A(diag(c) J) on the real aggregator, memoised per (configuration, schedule, c)."""

    def __init__(self, J):
        self.J = J
        self.cache = {}
        self.sig = {}
        self.execs = 0

    def matrix(self, c):
        return np.array(c)[:, None] * self.J

    def sigma(self, c):
        if c not in self.sig:
            self.sig[c] = A.sigma_max(self.matrix(c))
        return self.sig[c]

    def run(self, key, build, script, c):
        import torch
        from mc.seams import DrawReplayer

        k = (key, c)
        if k not in self.cache:
            Jt = torch.tensor(self.matrix(c), dtype=torch.float64)
            rp = DrawReplayer(script)
            try:
                if script:
                    with rp:
                        x = build()(Jt)
                else:  # deterministic aggregator: nothing to replay, run natively (an unexpected draw must not end as a harness fault)
                    x = build()(Jt)
                if not rp.exhausted:
                    raise HarnessError(f"draw script not exhausted: {rp.pos}/{len(rp.script)}")
                self.cache[k] = x.double().numpy()
            except DrawReplayer.Mismatch as e:
                raise HarnessError(f"draw replay diverged: {e}")
            except HarnessError:
                raise
            except Exception as e:
                self.cache[k] = e
            self.execs += 1
        return self.cache[k]


def _nonprop(c1, c2):
    r = np.array(c1) / np.array(c2)
    return bool(r.max() > r.min() * (1 + 1e-12))


def _check_triples(res, rn, name, key, build, script, trs, tol_factor, nontrivial_matrix, okey, desc0):
    """The exact identity for every triple."""
    for (c1, c2, a, b) in trs:
        c0 = _c0(c1, c2, a, b)
        xs = [rn.run(key, build, script, c) for c in (c0, c1, c2)]
        bad = [x for x in xs if isinstance(x, Exception)]
        if bad:
            res["viol"].append(dict(sig=f"exception:{name}:{type(bad[0]).__name__}", cls=f"exception:{name}:{rn.J.shape[0]}x{rn.J.shape[1]}", msg=f"{desc0} c1={c1} c2={c2}: {bad[0]!r}"[:400]))
            continue
        S = max(rn.sigma(c0), rn.sigma(c1), rn.sigma(c2))
        err = float(np.abs(xs[0] - a * xs[1] - b * xs[2]).max())
        tol = 1e-9 * S * tol_factor
        r = err / tol
        res["maxima"][okey] = max(res["maxima"].get(okey, 0.0), r)
        res["counters"]["evaluations"] += 1
        if nontrivial_matrix and _nonprop(c1, c2):
            res["nontrivial"] += 1
        if not (err <= tol):  # NaN-safe
            res["viol"].append(dict(sig=f"nonlinear:{name}", cls=f"nonlinear:{name}:{rn.J.shape[0]}x{rn.J.shape[1]}:{key.split('[s')[0].split('(')[0]}",
                                    msg=f"{desc0} c1={c1} c2={c2} a={a} b={b}: A(c0)={xs[0].tolist()} a*A(c1)+b*A(c2)={(a * xs[1] + b * xs[2]).tolist()} err/tol={r:.3g}"[:600]))
    return


def _units_facts(J, w):
    """ConFIG predicates: rank class of the unit rows and the size of the direction it normalises."""
    nr = np.linalg.norm(J, axis=1)
    U = J / nr[:, None]
    sv = np.linalg.svd(U, compute_uv=False)
    sv = sv / sv[0]
    unamb = all((x >= 1e-3) or (x <= 1e-12) for x in sv)
    bd = np.linalg.pinv(U, rcond=1e-9) @ w
    return unamb, float(np.linalg.norm(bd) / np.linalg.norm(w))


def _config_float32(res, J, key, w):
    """ConFIG in float32 at global scales 1 and 1e6, preference vector as given and shrunk by 1e-3 (added after a seeded change -
    a zero-direction guard relative to the norm of the MATRIX instead of the weights - was missed by the float64-only family)."""
    import torch
    from torchjd import aggregation as T

    m = J.shape[0]
    c1 = tuple(float(i + 1) for i in range(m))
    c2 = c1[::-1]
    a, b = 0.5, 2.0
    c0 = tuple(a * x + b * y for x, y in zip(c1, c2))
    for g, dtn in ((1.0, "float32"), (1e6, "float32"), (1e-13, "float32"), (1e-13, "float64")):
        dt_ = getattr(torch, dtn)
        for shrink in (1.0, 1e-3):
            pt = torch.tensor(np.asarray(w, dtype=np.float64) * shrink, dtype=dt_)
            xs = []
            for c in (c0, c1, c2):
                Jt = torch.tensor(np.array(c)[:, None] * J * g, dtype=dt_)
                try:
                    xs.append(T.ConFIG(pref_vector=pt)(Jt).double().numpy())
                except Exception as e:
                    res["viol"].append(dict(sig=f"exception:ConFIG:float32:{type(e).__name__}", msg=f"{key} J={J.tolist()} g={g}: {e!r}"[:300]))
                    xs = None
                    break
                res["execs"] += 1
            if xs is None:
                continue
            S = max(A.sigma_max(np.array(c)[:, None] * J * g) for c in (c0, c1, c2))
            err = float(np.abs(xs[0] - a * xs[1] - b * xs[2]).max())
            _, q = _units_facts(J, np.asarray(w, dtype=np.float64))
            tol = (2e-4 if dtn == "float32" else 1e-9) * S / min(1.0, q)
            okey = f"exact:ConFIG:{dtn}:far-scales"
            res["maxima"][okey] = max(res["maxima"].get(okey, 0.0), err / tol)
            res["counters"]["evaluations"] += 1
            if not (err <= tol):  # NaN-safe
                res["viol"].append(dict(sig=f"nonlinear:ConFIG:{dtn}", cls=f"nonlinear:ConFIG:{dtn}:g={g:g}:shrink={shrink:g}",
                                        msg=f"{key} J={J.tolist()} global scale {g:g} pref x{shrink:g} {dtn}: A(c0)={xs[0].tolist()} "
                                            f"a*A(c1)+b*A(c2)={(a * xs[1] + b * xs[2]).tolist()} err/tol={err / tol:.3g}"[:600]))


def _run_exact(case, res):
    import torch
    from torchjd import aggregation as T

    trs = triples(case["m"], case["level"])
    for J in mats(case["src"], case["m"], case["n"], case["seed"])[case["lo"] : case["hi"]]:
        m = J.shape[0]
        rn = Runner(J)
        exact_int = not case["src"].startswith(("dense", "generic"))
        cfgs = [("Mean", "Mean", lambda: T.Mean(), None), ("Sum", "Sum", lambda: T.Sum(), None)]
        for k, w in enumerate(CW):
            wt = torch.tensor(w[:m], dtype=torch.float64)
            cfgs.append(("Constant", f"Constant{k}", (lambda wt=wt: T.Constant(wt)), None))
        for k, p in enumerate(A.pref_vectors(m)):
            pt = None if p is None else torch.tensor(p, dtype=torch.float64)
            cfgs.append(("ConFIG", f"ConFIG[p{k}]", (lambda pt=pt: T.ConFIG(pref_vector=pt)), np.ones(m) if p is None else p))
        parallel = np.linalg.matrix_rank(J) < 2
        for name, key, build, w in cfgs:
            tol_factor = 1.0
            if name == "ConFIG":
                unamb, q = _units_facts(J, w)
                if not unamb or (not exact_int and np.linalg.matrix_rank(J) < min(J.shape)) or q < 1e-6:
                    res["dropped"] += len(trs)
                    res["counters"]["drop_config_ill_posed"] += len(trs)
                    continue
                tol_factor = 1.0 / min(1.0, q)
            nt = (name == "ConFIG" and not parallel) or name != "ConFIG"
            _check_triples(res, rn, name, key, build, [], trs, tol_factor, nt, f"exact:{name}", f"{key} J={J.tolist()}")
            x1 = rn.run(key, build, [], tuple([1.0] * m))
            if not isinstance(x1, Exception):
                res["outcomes"].add(digest([key, np.round(x1, 6).tolist()]))
            if name == "ConFIG":
                _config_float32(res, J, key, w)
        res["execs"] += rn.execs


def _pc_schedules(m, mode):
    perms = list(itertools.permutations(range(m)))
    if mode == "effective" and m == 3:
        # one raw schedule per class of effective projection orders: for row i only the relative order of the other two matters
        out = []
        for bits in itertools.product((0, 1), repeat=3):
            sched = []
            for i in range(3):
                others = [j for j in range(3) if j != i]
                if bits[i]:
                    others = others[::-1]
                sched.append([i] + others)
            out.append(sched)
        return out
    return [list(map(list, s)) for s in itertools.product(perms, repeat=m)]


def _run_pcgrad(case, res):
    from torchjd import aggregation as T

    trs = triples(case["m"], case["level"])
    m = case["m"]
    scheds = _pc_schedules(m, case.get("sched", "all"))
    for J in mats(case["src"], m, case["n"], case["seed"])[case["lo"] : case["hi"]]:
        rn = Runner(J)
        conflict = _conflict(J)
        outs = set()
        for si, sched in enumerate(scheds):
            script = [("randperm", p) for p in sched]
            _check_triples(res, rn, "PCGrad", f"PCGrad[s{si}]", lambda: T.PCGrad(), script, trs, 1.0, conflict, "exact:PCGrad", f"PCGrad schedule={sched} J={J.tolist()}")
            x1 = rn.run(f"PCGrad[s{si}]", lambda: T.PCGrad(), script, trs[0][0])
            if not isinstance(x1, Exception):
                outs.add(digest(np.round(x1, 6).tolist()))
        res["counters"]["schedules"] += len(scheds)
        res["counters"]["schedule_dependent_matrices"] += int(len(outs) > 1)
        res["outcomes"].update(digest([J.tolist(), o]) for o in outs)
        res["execs"] += rn.execs


def _run_native_seed(case, res):
    """PCGrad and Random under torch.manual_seed (no replayed draws), one instance per aggregator: the three calls of the identity are made
    under the same seed. Added after a seeded change - PCGrad consuming draws only for rows that have a conflict, so that the random stream
    depends on the sign of rounding noise - ended as a harness fault of the replay-based family. The matrices contain a conflict-free row
    that is EXACTLY orthogonal to another one, and rows with two conflicting partners; the scalings are not powers of two."""
    import torch
    from torchjd import aggregation as T

    mats_ = [np.array([[1.0, 2.0, 3.0, 0.0], [3.0, 0.0, -1.0, 0.0], [1.0, 0.0, 1.0, -2.0], [-1.0, 1.0, 0.0, 1.0]]),
             np.array([[1.0, 1.0, 0.0], [1.0, -1.0, 0.0], [-1.0, 0.0, 1.0], [0.0, -1.0, -1.0]])]
    J = mats_[case["k"]]
    m = J.shape[0]
    c1s = [tuple(A.L1[(i + r) % 3] for i in range(m)) for r in range(3)] + [tuple(0.3 * (i + 1) for i in range(m)), tuple(0.7 ** i for i in range(m))]
    # one row 1e4 / 1e5 times smaller (or larger) than the others inside one operand, in float32 as well: a row is a projection target
    # however small it is relative to the others (added after a seeded change: rows below sqrt(eps) x the largest norm skipped)
    wide = [tuple(f if i == r else 1.0 for i in range(m)) for r in range(m) for f in (1e-4, 1e-5, 1e4)]
    for name, agg, dtype, tol_rel in (("PCGrad", T.PCGrad(), torch.float64, 1e-9), ("Random", T.Random(), torch.float64, 1e-9),
                                      ("PCGrad", T.PCGrad(), torch.float32, 1e-4), ("Random", T.Random(), torch.float32, 1e-4)):
        for c1 in c1s + wide:
            for c2 in (tuple([1.0] * m), c1[::-1]):
                for (a, b) in AB:
                    c0 = _c0(c1, c2, a, b)
                    for z in range(3):
                        xs = []
                        for c in (c0, c1, c2):
                            torch.manual_seed(z)
                            res["execs"] += 1
                            xs.append(agg(torch.tensor(np.array(c)[:, None] * J, dtype=dtype)).double().numpy())
                        S = max(A.sigma_max(np.array(c)[:, None] * J) for c in (c0, c1, c2))
                        err = float(np.abs(xs[0] - a * xs[1] - b * xs[2]).max())
                        tol = tol_rel * S
                        ok = f"native-seed:{name}:{str(dtype)[6:]}"
                        res["maxima"][ok] = max(res["maxima"].get(ok, 0.0), err / tol)
                        res["counters"]["evaluations"] += 1
                        res["nontrivial"] += 1
                        if not (err <= tol):
                            res["viol"].append(dict(sig=f"nonlinear:{name}:native-seed", cls=f"nonlinear:{name}:native-seed",
                                                    msg=f"{name} {str(dtype)[6:]} manual_seed({z}) J={J.tolist()} c1={c1} c2={c2} a={a} b={b}: A(c0)={xs[0].tolist()} "
                                                        f"a*A(c1)+b*A(c2)={(a * xs[1] + b * xs[2]).tolist()} err/tol={err / tol:.3g}"[:600]))
        res["outcomes"].add(digest([name, case["k"]]))


def _run_random(case, res):
    from torchjd import aggregation as T

    trs = triples(case["m"], case["level"])
    m = case["m"]
    for J in mats(case["src"], m, case["n"], case["seed"])[case["lo"] : case["hi"]]:
        rn = Runner(J)
        for z in itertools.product((-2.0, 0.0, 3.0), repeat=m):
            script = [("randn", list(z))]
            _check_triples(res, rn, "Random", f"Random{z}", lambda: T.Random(), script, trs, 1.0, True, "exact:Random", f"Random randn={z} J={J.tolist()}")
            x1 = rn.run(f"Random{z}", lambda: T.Random(), script, trs[0][0])
            if not isinstance(x1, Exception):
                res["outcomes"].add(digest([z, np.round(x1, 6).tolist()]))
        res["execs"] += rn.execs


# ----------------------------------------------------------------------------- UPGrad
def _w0(M, u):
    """(sum_i |v0_i|_2, worst KKT residual) of the unregularised projections v0_i = argmin v'G^v, v >= u_i e_i."""
    s = A.sigma_max(M)
    Mn = M / s
    G = Mn @ Mn.T
    tot, worst = 0.0, 0.0
    for i in range(len(u)):
        e = np.zeros(len(u))
        e[i] = u[i]
        if u[i] == 0.0:
            continue
        v, r = R.qp_lower_bounded(G, e)
        if v is None:
            return math.inf, math.inf
        tot += float(np.linalg.norm(v))
        worst = max(worst, r)
    return tot, worst


def _run_upgrad(case, res):
    import torch
    from torchjd import aggregation as T

    m = case["m"]
    trs = triples(m, case["level"])
    for J in mats(case["src"], m, case["n"], case["seed"])[case["lo"] : case["hi"]]:
        if not _fullrank(J) or np.linalg.cond(J) > 1e3:
            res["dropped"] += len(trs) * len(REGS)
            res["counters"]["drop_not_full_row_rank"] += 1
            continue
        rn = Runner(J)
        # the rungs that run with the default norm_eps = 1e-4 use the matrix scaled by 0.05: its smallest singular values then fall BELOW
        # norm_eps while the largest stays above it (the cut-off must apply to the largest singular value only)
        rn_small = Runner(J * 0.05)
        # ... and, for reg = 1e-12, by 0.002: sigma_max lands between norm_eps and sqrt(norm_eps) (added after a seeded change that
        # compared norm_eps with the largest EIGENvalue of the Gramian, i.e. with sigma_max squared)
        rn_tiny = Runner(J * 0.002)
        conflict = _conflict(J)
        for pk, p in enumerate(A.pref_vectors(m)):
            if 1 <= pk <= m and pk != 1:
                continue  # one one-hot preference (e_0) is enough: the others are the same projections taken singly
            u = np.full(m, 1.0 / m) if p is None else np.asarray(p, dtype=np.float64)
            pt = None if p is None else torch.tensor(p, dtype=torch.float64)
            W = {}

            def w0(c):
                if c not in W:
                    W[c] = _w0(rn.matrix(c), u)
                return W[c]

            LAM = {}

            def lam(c):
                if c not in LAM:
                    sv = np.linalg.svd(rn.matrix(c), compute_uv=False)
                    LAM[c] = float((sv[-1] / sv[0]) ** 2)
                return LAM[c]

            for reg in REGS:
                key = f"UPGrad[p{pk},reg={reg:g}]"
                # norm_eps never matters here (sigma_max(diag(c) J) >= max c >= 1e-3): alternate a tiny value and the default, so
                # that a mix-up of the two eps parameters anywhere below the constructor changes the regularisation actually applied
                ne = 1e-4 if reg in (1e-8, 1e-12) else 1e-30
                build = lambda pt=pt, reg=reg, ne=ne: T.UPGrad(pref_vector=pt, norm_eps=ne, reg_eps=reg)
                for (c1, c2, a, b) in trs:
                    c0 = _c0(c1, c2, a, b)
                    ws = [w0(c) for c in (c0, c1, c2)]
                    if max(r for _, r in ws) > 1e-6 or not all(math.isfinite(w) for w, _ in ws):
                        res["dropped"] += 1
                        res["counters"]["drop_reference_not_certified"] += 1
                        continue
                    small = ne == 1e-4 and min(rn_small.sigma(c) for c in (c0, c1, c2)) >= 2e-4
                    r_ = rn_small if small else rn
                    if reg == 1e-12 and min(rn_tiny.sigma(c) for c in (c0, c1, c2)) >= 2e-4:
                        r_ = rn_tiny
                        res["counters"]["tiny_scale_evaluations"] += 1
                    xs = [r_.run(key, build, [], c) for c in (c0, c1, c2)]
                    bad = [x for x in xs if isinstance(x, Exception)]
                    if bad:
                        res["viol"].append(dict(sig=f"exception:UPGrad:reg={reg:g}:{type(bad[0]).__name__}", cls=f"exception:UPGrad:{reg:g}",
                                                msg=f"{key} J={J.tolist()} c1={c1} c2={c2}: {bad[0]!r}"[:400]))
                        continue
                    Ss = [r_.sigma(c) for c in (c0, c1, c2)]
                    S = max(Ss)
                    defect = float(np.linalg.norm(xs[0] - a * xs[1] - b * xs[2]))
                    bound = math.sqrt(reg) * (Ss[0] * ws[0][0] + a * Ss[1] * ws[1][0] + b * Ss[2] * ws[2][0]) + 1e-9 * S
                    # second proven bound, LINEAR in reg (this is the "vanishes as reg_eps -> 0" clause on ill-conditioned inputs): for the
                    # minimisers v* (regularised) and v0 (not) over the same convex set, the two variational inequalities give
                    # lambda_min |v*-v0|^2 <= (v*-v0)'G^(v*-v0) <= reg <v*, v0-v*> <= reg |v0| |v*-v0|, hence |J'(v*-v0)| <= s reg |v0| / lambda_min
                    lams = [lam(c) for c in (c0, c1, c2)]
                    lin = reg * (Ss[0] * ws[0][0] / lams[0] + a * Ss[1] * ws[1][0] / lams[1] + b * Ss[2] * ws[2][0] / lams[2])
                    slack = 1e-9 * S + 1e-13 * (Ss[0] * ws[0][0] / lams[0] + a * Ss[1] * ws[1][0] / lams[1] + b * Ss[2] * ws[2][0] / lams[2])
                    okl = f"upgrad-linear-bound:reg={reg:g}"
                    res["maxima"][okl] = max(res["maxima"].get(okl, 0.0), defect / (lin + slack))
                    if not (defect <= lin + slack):
                        res["viol"].append(dict(sig=f"upgrad-defect-exceeds-linear-bound:reg={reg:g}", cls=f"upgrad-lin:{reg:g}",
                                                msg=f"{key} J={J.tolist()} c1={c1} c2={c2} a={a} b={b}: defect={defect:.3g} reg*s*|v0|/lambda_min bound={lin + slack:.3g} "
                                                    f"S={S:.3g} lambda_min={[float(f'{x:.3g}') for x in lams]}"[:600]))
                    r = defect / bound
                    kc = max(max(c1) / min(c1), max(c2) / min(c2))
                    okey = f"upgrad:reg={reg:g}"
                    res["maxima"][okey] = max(res["maxima"].get(okey, 0.0), r)
                    if kc <= 4.0:
                        ok2 = f"upgrad-wellcond(kappa_c<=4):reg={reg:g}"
                        res["maxima"][ok2] = max(res["maxima"].get(ok2, 0.0), r)
                        ok3 = f"upgrad-wellcond-defect/S:reg={reg:g}"
                        res["maxima"][ok3] = max(res["maxima"].get(ok3, 0.0), defect / S)
                    res["counters"]["evaluations"] += 1
                    if conflict and _nonprop(c1, c2):
                        res["nontrivial"] += 1
                    if not (defect <= bound):  # NaN-safe
                        res["viol"].append(dict(sig=f"upgrad-defect-exceeds-bound:reg={reg:g}", cls=f"upgrad-defect:{reg:g}",
                                                msg=f"{key} J={J.tolist()} c1={c1} c2={c2} a={a} b={b}: defect={defect:.3g} bound={bound:.3g} S={S:.3g} W={[round(w, 3) for w, _ in ws]}"[:600]))
                x1 = rn.run(f"UPGrad[p{pk},reg={reg:g}]", build, [], trs[0][0])
                if not isinstance(x1, Exception):
                    res["outcomes"].add(digest([pk, reg, np.round(x1, 6).tolist()]))
        res["execs"] += rn.execs + rn_small.execs


# ----------------------------------------------------------------------------- entry point
class _Counter(dict):
    def __missing__(self, k):
        return 0


def run_case(case):
    if case["fam"] == "bufreuse":
        import torch
        from torchjd import aggregation as T

        from mc import bufreuse

        pv = lambda dt: torch.tensor([1.0, 2.0, 3.0], dtype=dt) / 6  # noqa: E731
        r = bufreuse.run({"Mean": lambda dt: T.Mean(), "Sum": lambda dt: T.Sum(), "Constant": lambda dt: T.Constant(pv(dt)), "ConFIG": lambda dt: T.ConFIG(),
                          "ConFIG|p": lambda dt: T.ConFIG(pref_vector=pv(dt)), "PCGrad": lambda dt: T.PCGrad(), "Random": lambda dt: T.Random(), "UPGrad": lambda dt: T.UPGrad()},
                         seeded=("PCGrad", "Random"))
        r.update(dropped=0, maxima={}, counters={}, margin=0.0)
        return r
    res = dict(viol=[], execs=0, outcomes=set(), nontrivial=0, dropped=0, maxima={}, counters=_Counter())
    fam = case["fam"]
    if fam == "exact":
        _run_exact(case, res)
    elif fam == "pcgrad":
        _run_pcgrad(case, res)
    elif fam == "random":
        _run_random(case, res)
    elif fam == "native-seed":
        _run_native_seed(case, res)
    elif fam == "upgrad":
        _run_upgrad(case, res)
    else:
        raise HarnessError(f"unknown family {fam}")
    res["outcomes"] = sorted(res["outcomes"])
    res["counters"] = dict(res["counters"])
    # the margin reported to the runner is that of the tolerance-based oracles; the UPGrad ratios are defect / PROVEN bound
    res["margin"] = max((v for k, v in res["maxima"].items() if k.startswith("exact:")), default=0.0)
    return res


def finalize(tier, seed, agg, cases, results):
    import sys

    HE = getattr(sys.modules.get("__main__"), "HarnessError", HarnessError)
    mx = agg["maxima"]
    ladder = {f"{r:g}": mx.get(f"upgrad:reg={r:g}") for r in REGS}
    well = {f"{r:g}": mx.get(f"upgrad-wellcond(kappa_c<=4):reg={r:g}") for r in REGS}
    if any(f"upgrad:reg={r:g}" in mx for r in REGS):
        if agg["counters"].get("schedule_dependent_matrices", 0) == 0 and any(c["fam"] == "pcgrad" and c["m"] == 3 for c in cases):
            raise HE("no PCGrad schedule changed an outcome: the draw seam is not exercised")
    return dict(notes=dict(upgrad_defect_over_bound_along_ladder=ladder, upgrad_wellconditioned_along_ladder=well))
