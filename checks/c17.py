"""C17 — impartial aggregators treat every objective alike (DESIGN §3 C17).

E-enum: every integer matrix with entries in {-2..2} and m <= n <= 3 that the float64 reference SVD certifies as
full row rank with condition number <= 50, plus D(seed) for m <= n <= 5, x global scales {1e-3, 1, 1e3} x positive
preference vectors x {float64, float32}; plus the zero matrix of every shape up to 5x5.

Oracles, each derived from the property text and checked against the source before running:
  IMTL-G  (imtl_g.py: v = pinv(J J^T) d, w = v / sum v, x = J^T w): J J^T v = d  =>  J x = d / sum(v)  =>
          (J x)_i / |g_i| = 1 / sum(v) for every i.   Asserted: |sum(w) - 1| small; max_i - min_i of (J x)_i/|g_i|
          small; x = J^T w.
  ConFIG  (config.py: dir = pinv(U) p with U = unit rows, p = pref (default ones); x = (sum_i g_i . dir^) dir^):
          U has full row rank => U dir = p => cos(g_i, x) = p_i / |dir|. Asserted: cos_i p_j = cos_j p_i for all
          i, j (equal cosines without pref, proportional to pref with it), cos_i > 0, |x| = sum_i g_i . x^.
  Aligned-MTL (aligned_mtl.py: B = sigma_min (J J^T)^(-1/2), alpha = B p, x = J^T alpha): with R_i := A_{e_i}(J)
          (one-hot preference vectors; R = B J) R R^T = sigma_min^2 I and A_p(J) = sum_i p_i R_i (default p = 1/m).
          Its rank tolerance uses torch.finfo().eps of the DEFAULT dtype (float32: 1.2e-7) whatever the dtype of J:
          eigenvalues below lambda_max * m * 1.2e-7 are cut. With cond <= 50 (lambda_min / lambda_max >= 4e-4) no
          eigenvalue of the alphabet is near that cut, so the clause "all as long as the smallest singular value of
          J" is asserted with the reference sigma_min without reservation.
  zero matrix => the zero vector, exactly.

Predicates narrowing the alphabet (counted in `dropped`): full row rank and cond <= 50 (the quantifier's "bounded
condition number"); for IMTL-G additionally |1^T pinv(G) d| * max d >= 1e-6 (its exact map is discontinuous where
sum v = 0). IMTL-G's absolute guard |sum v| < 1e-12 is a known scale defect that belongs to C11; at the scales used
here (t <= 1e3, max d <= 7e3) the predicate implies |sum v| >= 1.4e-10, i.e. the guard is irrelevant by construction.
"""
from __future__ import annotations

import math

import numpy as np

from mc import alphabets as A
from mc.runner import HarnessError

SPEC = dict(
    property_id="C17",
    level="exploration",
    rule=(
        "case = block of integer matrices of one shape (or D(seed) / zero matrices) with a list of global scales and "
        "dtypes; evaluation = one call of the real IMTLG / ConFIG(pref) / AlignedMTL(pref or one-hot) on one "
        "(matrix, scale, dtype); non-trivial = evaluations on a matrix with m >= 2 whose Gramian is not a multiple of "
        "the identity (the rows are not already balanced and orthogonal, so the plain sum/mean would violate the oracle)"
    ),
    bound=dict(
        quick="well-posed integer matrices: entries {-2..2} for 1x1,1x2,1x3,2x2 (scales {1e-3,1,1e3} x float64/32); "
        "entries {-1,0,1,2} for 2x3 (3 scales float64, float32 at scale 1); entries {-1,0,1} for 3x3 (scale 1, both "
        "dtypes); D(seed) m<=n<=5 (3 scales, both dtypes); prefs None,(1..m)/sum,(m..1),(1e-2,1,..) and every one-hot "
        "for Aligned-MTL; zero matrices of all shapes up to 5x5; special families: negative weight sums, scales 1e+-13, preference magnitudes 1..1e-9, "
        "100 000 / 300 000 columns, instance re-use after the zero matrix, one buffer re-filled in place",
        thorough="entries {-2..2} for all shapes up to 2x3 and {-1,0,1} for 3x3 (3 scales x both dtypes); 3x3 with "
        "entries {-1,0,1,2} (262 144, 208 074 well-posed) at scale 1 float64, all configurations; ALL 3x3 with entries "
        "{-2..2} (1 953 125, 1 647 744 well-posed) at scale 1 float64 for IMTL-G and ConFIG(None, increasing pref) only "
        "(Aligned-MTL and the other prefs are not run on that largest list: stated bound); D(seed); zero matrices",
    ),
    assumptions=[
        "matrices off the finite alphabet are not covered; cond <= 50; scales 1e-3..1e3 only (IMTL-G's absolute guard is C11's business)",
        "sigma_max / sigma_min / rank come from the float64 NumPy SVD (reference)",
    ],
    min_outcomes=20,
    min_nontrivial=100,
)

ENT5 = (-2, -1, 0, 1, 2)
ENT3 = (-1, 0, 1)
ENT4 = (-1, 0, 1, 2)
SCALES = (1.0, 1e-3, 1e3)
COND_MAX = 50.0
Q_MIN = 1e-6
DETERMINISM_SLICE = 8
# tolerances (relative): float64 / float32
TOL = {
    "float64": dict(sum=1e-12, comb=1e-12, proj=1e-9, cos=1e-9, length=1e-9, gram=1e-9, lin=1e-9),
    # float32: eps32 (1.2e-7) x cond(J J^T) (<= 2500) x safety 20 for everything that goes through pinv/eigh of the Gramian
    "float32": dict(sum=1e-5, comb=1e-5, proj=6e-3, cos=6e-3, length=1e-4, gram=6e-3, lin=1e-4),
}


def _blocks(N, size):
    return [(lo, min(N, lo + size)) for lo in range(0, N, size)]


def gen_cases(tier, seed):
    """case fields: scales / dtypes = lists for the (scale, dtype) product; extra32 = additionally float32 at scale 1;
    mode 'full' = all three aggregators with all preference vectors, 'lite' = IMTL-G and ConFIG(None, increasing pref)."""
    cases = []
    both = ["float64", "float32"]

    def add(m, n, ent, bs, scales, dtypes, mode="full", extra32=False):
        for lo, hi in _blocks(len(ent) ** (m * n), bs):
            cases.append(dict(kind="int", m=m, n=n, ent=list(ent), lo=lo, hi=hi, scales=list(scales), dtypes=dtypes, mode=mode, extra32=extra32))

    for (m, n) in [(1, 1), (1, 2), (1, 3), (2, 2)]:
        add(m, n, ENT5, 50, SCALES, both)
        # far scales (possible since IMTL-G's scale-dependent guard was repaired, DESIGN 7.3): the defining equations are scale-free
        add(m, n, ENT5, 50, (1e-13, 1e13), ["float64"])
    if tier == "quick":
        add(2, 3, ENT4, 32, SCALES, ["float64"], extra32=True)
        add(3, 3, ENT3, 100, [1.0], both)
    else:
        add(2, 3, ENT5, 125, SCALES, both)
        add(3, 3, ENT3, 243, SCALES, both)
        add(3, 3, ENT4, 1024, [1.0], ["float64"])
        add(3, 3, ENT5, 3125, [1.0], ["float64"], mode="lite")
    # structural sub-family (added after a seeded change was missed by the quick tier): the first 160 well-posed 3x3 matrices
    # with entries {-1,0,1,2}, in lexicographic order, whose IMTL-G weights have a NEGATIVE sum before normalisation
    # (none exists with entries {-1,0,1}); the thorough tier contains all 2 358 of them anyway.
    neg = _negative_sum_indices(160)
    for lo in range(0, len(neg), 20):
        cases.append(dict(kind="intlist", m=3, n=3, ent=list(ENT4), idx=neg[lo:lo + 20], scales=[1.0], dtypes=["float64"], mode="full",
                          extra32=True))
    # added after two seeded changes were missed: preference vectors of tiny magnitude (the cosines depend on their direction only) and
    # very wide matrices (the numerical-rank tolerance of Aligned-MTL must not grow with the number of columns)
    cases.append(dict(kind="special", what="tiny-pref"))
    cases.append(dict(kind="special", what="buffer-reuse"))
    for k_ in range(2):
        cases.append(dict(kind="special", what="wide", k=k_))
    for n in range(1, 6):
        for m in range(1, n + 1):
            cases.append(dict(kind="dense", m=m, n=n, seed=seed, scales=list(SCALES), dtypes=both, mode="full", extra32=False))
    for m in range(1, 6):
        cases.append(dict(kind="zero", m=m, dtypes=both))
    return cases


def _negative_sum_indices(count):
    out, i, N = [], 0, len(ENT4) ** 9
    while len(out) < count and i < N:
        J = A.ternary_index(3, 3, i, entries=tuple(ENT4))
        sv = np.linalg.svd(J, compute_uv=False)
        if sv[-1] > 1e-9 and sv[0] / sv[-1] <= 50:
            d = np.linalg.norm(J, axis=1)
            v = np.linalg.pinv(J @ J.T) @ d
            if v.sum() * d.max() < -1e-3:
                out.append(i)
        i += 1
    return out


# ------------------------------------------------------------------------------------------------ real code, cached
_AGG = {}


def _pref_key(p):
    return None if p is None else tuple(float(v) for v in p)


def _agg(name, p, dtype):
    import torch
    from torchjd.aggregation import IMTLG, AlignedMTL, ConFIG

    key = (name, _pref_key(p), dtype)
    if key not in _AGG:
        pt = None if p is None else torch.tensor(np.asarray(p, dtype=np.float64), dtype=getattr(torch, dtype))
        if name == "imtlg":
            agg = IMTLG()
            box = []
            agg.weighting.register_forward_hook(lambda mod, inp, out, box=box: box.append(out))
            _AGG[key] = (agg, box)
        elif name == "config":
            _AGG[key] = (ConFIG(pref_vector=pt), None)
        else:
            _AGG[key] = (AlignedMTL(pref_vector=pt), None)
    return _AGG[key]


class _Acc:
    def __init__(self):
        self.viol, self.outcomes, self.maxima, self.counters = [], set(), {}, {}
        self.execs = self.nontriv = self.dropped = 0

    def mg(self, key, v):
        if not v <= self.maxima.get(key, 0.0):
            self.maxima[key] = v if v == v else math.inf

    def cnt(self, key, v=1):
        self.counters[key] = self.counters.get(key, 0) + v

    def result(self):
        return dict(
            viol=self.viol, execs=self.execs, outcomes=sorted(self.outcomes), nontrivial=self.nontriv,
            dropped=self.dropped, margin=max(self.maxima.values()) if self.maxima else 0.0,
            maxima=self.maxima, counters=self.counters,
        )


def _call(acc, name, p, Jt, dtype, desc):
    """one execution of the real code; returns (x as float64 ndarray | None, weights | None)"""
    agg, box = _agg(name, p, dtype)
    if box is not None:
        del box[:]
    acc.execs += 1
    try:
        x = agg(Jt)
    except Exception as e:
        acc.viol.append(dict(sig=f"exception:{name}:{type(e).__name__}", cls=f"exc:{name}:{dtype}",
                             msg=f"{name} pref={_pref_key(p)} {desc}: {e!r}"[:500]))
        return None, None
    if x.dtype != Jt.dtype or tuple(x.shape) != (Jt.shape[1],) or (box is not None and len(box) != 1):
        acc.viol.append(dict(sig=f"bad-output-type:{name}", msg=f"{desc}: dtype={x.dtype} shape={tuple(x.shape)}"))
        return None, None
    xd = x.double().numpy()
    if not np.isfinite(xd).all():
        acc.viol.append(dict(sig=f"non-finite-output:{name}", cls=f"nonfinite:{name}:{dtype}", msg=f"{name} pref={_pref_key(p)} {desc}: {xd.tolist()}"))
        return None, None
    return xd, (box[0].double().numpy() if box is not None else None)


def _one_hot(m, i):
    e = np.zeros(m)
    e[i] = 1.0
    return e


def _check_matrix(acc, J0, t, dtype, tag, lite=False):
    """All three aggregators on t*J0 in dtype. J0 is certified well-posed by the caller."""
    import torch

    m, n = J0.shape
    T = TOL[dtype]
    Jt = torch.tensor(J0 * t, dtype=getattr(torch, dtype))
    Jd = Jt.double().numpy()
    sv = np.linalg.svd(Jd, compute_uv=False)
    s, smin = float(sv[0]), float(sv[m - 1])
    d = np.sqrt((Jd * Jd).sum(axis=1))
    desc = f"J={J0.tolist()}*{t:g} {dtype}"
    G = Jd @ Jd.T
    nontrivial = m >= 2 and float(np.abs(G - np.eye(m) * G[0, 0]).max()) > 1e-9 * s * s
    prefs = A.positive_pref_vectors(m)
    if lite:
        prefs = prefs[:2]

    # ---------------------------------------------------------------- IMTL-G
    Gn = G / (s * s)
    v = np.linalg.solve(Gn, d / s)
    q = abs(float(v.sum())) * float(d.max() / s)
    if q < Q_MIN:
        acc.dropped += 1
        acc.cnt("imtlg_dropped_sum_v_near_zero")
    else:
        x, w = _call(acc, "imtlg", None, Jt, dtype, desc)
        if x is not None:
            l1 = float(np.abs(w).sum())
            sc = max(l1, 1.0)
            e_sum = abs(math.fsum(w.tolist()) - 1.0) / (T["sum"] * sc)
            e_comb = float(np.abs(x - Jd.T @ w).max()) / (T["comb"] * s * sc * m)
            proj = (Jd @ x) / d
            e_proj = float(proj.max() - proj.min()) / (T["proj"] * s * sc)
            acc.mg(f"imtlg-sum-to-one:{dtype}", e_sum)
            acc.mg(f"imtlg-is-combination:{dtype}", e_comb)
            acc.mg(f"imtlg-equal-projections:{dtype}", e_proj)
            if not e_sum <= 1:
                acc.viol.append(dict(sig="imtlg-weights-do-not-sum-to-one", cls=f"I-sum:{dtype}:{tag}",
                                     msg=f"{desc}: weights={w.tolist()} sum={math.fsum(w.tolist())!r}"))
            elif not e_comb <= 1:
                acc.viol.append(dict(sig="imtlg-not-the-combination-of-its-weights", cls=f"I-comb:{dtype}:{tag}",
                                     msg=f"{desc}: x={x.tolist()} w={w.tolist()}"))
            elif not e_proj <= 1:
                acc.viol.append(dict(sig="imtlg-unequal-projections", cls=f"I-proj:{dtype}:{tag}",
                                     msg=f"{desc}: (Jx)_i/|g_i|={proj.tolist()} w={w.tolist()} err/tol={e_proj:.3g}"))
            else:
                acc.outcomes.add(f"I{m}{n}:" + "".join("+" if wi > 0 else "-" for wi in w) + f":{proj[0] / s:.1f}")
            acc.nontriv += int(nontrivial)

    # ---------------------------------------------------------------- ConFIG
    for pi, p in enumerate(prefs):
        x, _ = _call(acc, "config", p, Jt, dtype, desc)
        if x is None:
            continue
        acc.nontriv += int(nontrivial)
        pp = np.ones(m) if p is None else np.asarray(p, dtype=np.float64)
        pp = pp / pp.max()
        nx = float(np.linalg.norm(x))
        if not nx > 0:
            acc.viol.append(dict(sig="config-zero-output-on-independent-rows", cls=f"C-zero:{dtype}:{tag}", msg=f"{desc} pref={_pref_key(p)}: x={x.tolist()}"))
            continue
        gx = Jd @ x
        cos = gx / (d * nx)
        cross = np.abs(np.outer(cos, pp) - np.outer(pp, cos))
        e_cos = float(cross.max()) / T["cos"]
        e_len = abs(nx - float(gx.sum()) / nx) / (T["length"] * s * m)
        acc.mg(f"config-cosines-proportional:{dtype}", e_cos)
        acc.mg(f"config-length:{dtype}", e_len)
        if not float(cos.min()) > 0:
            acc.viol.append(dict(sig="config-cosine-not-positive", cls=f"C-pos:{dtype}:{tag}:{pi}",
                                 msg=f"{desc} pref={_pref_key(p)}: cosines={cos.tolist()}"))
        elif not e_cos <= 1:
            acc.viol.append(dict(sig="config-cosines-not-proportional-to-pref" if p is not None else "config-unequal-cosines",
                                 cls=f"C-cos:{dtype}:{tag}:{pi}",
                                 msg=f"{desc} pref={_pref_key(p)}: cosines={cos.tolist()} err/tol={e_cos:.3g}"))
        elif not e_len <= 1:
            acc.viol.append(dict(sig="config-length-not-sum-of-projections", cls=f"C-len:{dtype}:{tag}:{pi}",
                                 msg=f"{desc} pref={_pref_key(p)}: |x|={nx!r} sum_i g_i.x^={float(gx.sum()) / nx!r}"))
        else:
            acc.outcomes.add(f"C{m}{n}:{pi}:{float((cos / pp).mean()):.2f}")

    # ---------------------------------------------------------------- Aligned-MTL
    if lite:
        return
    rows = []
    for i in range(m):
        x, _ = _call(acc, "aligned", _one_hot(m, i), Jt, dtype, desc)
        if x is None:
            return
        rows.append(x)
        acc.nontriv += int(nontrivial)
    Rm = np.array(rows)
    E = Rm @ Rm.T - (smin * smin) * np.eye(m)
    e_gram = float(np.abs(E).max()) / (T["gram"] * s * s)
    acc.mg(f"aligned-RRt=sigma_min^2.I:{dtype}", e_gram)
    if not e_gram <= 1:
        acc.viol.append(dict(sig="aligned-rebalanced-rows-not-orthogonal-of-length-sigma-min", cls=f"A-gram:{dtype}:{tag}",
                             msg=f"{desc}: R R^T={(Rm @ Rm.T).tolist()} sigma_min^2={smin * smin!r} sigma_max^2={s * s!r} err/tol={e_gram:.3g}"))
        return
    for pi, p in enumerate(prefs):
        x, _ = _call(acc, "aligned", p, Jt, dtype, desc)
        if x is None:
            continue
        acc.nontriv += int(nontrivial)
        pp = np.full(m, 1.0 / m) if p is None else np.asarray(p, dtype=np.float64)
        e_lin = float(np.abs(x - pp @ Rm).max()) / (T["lin"] * s * float(np.abs(pp).sum()))
        acc.mg(f"aligned-pref-weighted-combination:{dtype}", e_lin)
        if not e_lin <= 1:
            acc.viol.append(dict(sig="aligned-not-the-pref-weighted-combination-of-rebalanced-rows", cls=f"A-lin:{dtype}:{tag}:{pi}",
                                 msg=f"{desc} pref={_pref_key(p)}: x={x.tolist()} sum p_i R_i={(pp @ Rm).tolist()}"))
    acc.outcomes.add(f"A{m}{n}:{smin / s:.2f}")


def _well_posed(J):
    """full row rank and cond <= COND_MAX by the float64 reference SVD"""
    m = J.shape[0]
    sv = np.linalg.svd(J, compute_uv=False)
    return sv[0] > 0 and sv[m - 1] > 0 and sv[0] <= COND_MAX * sv[m - 1]


def _run_zero(acc, case):
    import torch

    m = case["m"]
    _AGG.clear()  # fresh instances for this case (they are deliberately reused inside it)
    for n in range(1, 6):
        for dtype in case["dtypes"]:
            Jt = torch.zeros(m, n, dtype=getattr(torch, dtype))
            desc = f"zeros({m},{n}) {dtype}"
            calls = [("imtlg", None)]
            calls += [("config", p) for p in A.positive_pref_vectors(m)]
            calls += [("aligned", p) for p in A.positive_pref_vectors(m)] + [("aligned", _one_hot(m, i)) for i in range(m)]
            for name, p in calls:
                x, _ = _call(acc, name, p, Jt, dtype, desc)
                if x is None:
                    continue
                acc.nontriv += 1
                acc.outcomes.add(f"Z:{name}:{bool((x == 0).all())}")
                if not (x == 0).all():
                    acc.viol.append(dict(sig=f"zero-matrix-nonzero-output:{name}", cls=f"Z:{name}:{dtype}",
                                         msg=f"{name} pref={_pref_key(p)} on {desc}: {x.tolist()}"))
            # the very same instances, right after the all-zero matrix, on a full-rank matrix: they must behave like new ones
            # (an aggregator that edits its preference vector in place for null rows would not)
            if n == m:
                dt = getattr(torch, dtype)
                J1 = torch.eye(m, dtype=dt) * 2.0 + torch.diag(torch.ones(m - 1, dtype=dt), 1) * 0.5 if m > 1 else torch.full((1, 1), 2.0, dtype=dt)
                for name, p in calls:
                    x, _ = _call(acc, name, p, J1, dtype, f"{desc} then full-rank")
                    _AGG.pop((name, _pref_key(p), dtype), None)
                    y, _ = _call(acc, name, p, J1, dtype, f"fresh instance on full-rank {m}x{m}")
                    if x is None or y is None:
                        continue
                    if not np.array_equal(x, y):
                        acc.viol.append(dict(sig=f"stateful-after-zero-matrix:{name}", cls=f"ZS:{name}:{dtype}",
                                             msg=f"{name} pref={_pref_key(p)} {dtype}: after a call on zeros({m},{m}) the same instance returns {x.tolist()} "
                                                 f"on {J1.tolist()}, a new instance returns {y.tolist()}"))


def _run_special(acc, case):
    import torch
    from torchjd.aggregation import AlignedMTL, ConFIG

    if case["what"] == "tiny-pref":
        mats = [np.array([[1.0, 2.0, 0.0], [-1.0, 1.0, 1.0]]), np.array([[2.0, -1.0, 0.5], [0.5, 1.0, -1.0], [1.0, 1.0, 2.0]])]
        for J in mats:
            m = J.shape[0]
            base = np.arange(1, m + 1, dtype=np.float64)
            for dtype in ("float64", "float32"):
                dt = getattr(torch, dtype)
                Jt = torch.tensor(J, dtype=dt)
                ref = None
                for mag in (1.0, 1e-3, 1e-6, 1e-9):
                    acc.execs += 1
                    try:
                        x = ConFIG(pref_vector=torch.tensor(base * mag, dtype=dt))(Jt).double().numpy()
                    except Exception as e:
                        acc.viol.append(dict(sig=f"exception:config:{type(e).__name__}", msg=f"ConFIG pref={mag}*{base.tolist()} {dtype}: {e!r}"[:300]))
                        continue
                    # direction: cosines proportional to the preference, whatever its magnitude; length: sum of projections (independent of it)
                    if ref is None:
                        ref = x
                    tol = (1e-9 if dtype == "float64" else 2e-4) * max(1.0, float(np.abs(ref).max()))
                    err = float(np.abs(x - ref).max())
                    acc.mg(f"config-pref-magnitude:{dtype}", err / tol)
                    acc.nontriv += 1
                    acc.outcomes.add(f"tp:{dtype}:{mag}")
                    if not (err <= tol):
                        acc.viol.append(dict(sig="config-depends-on-the-magnitude-of-the-preference-vector", cls=f"tinypref:{dtype}",
                                             msg=f"ConFIG J={J.tolist()} {dtype}: pref {mag}*{base.tolist()} gives {x.tolist()}, pref {base.tolist()} gives {ref.tolist()}"))
        return
    if case["what"] == "buffer-reuse":
        # one instance, one pre-allocated Jacobian buffer re-filled in place (a training loop): every call must return what a new
        # instance returns on a new tensor holding the same values (added after a seeded change: AlignedMTL's balance transformation
        # cached on the identity of the matrix object)
        from torchjd.aggregation import IMTLG

        mats = [np.array([[2.0, -1.0, 0.5], [0.5, 1.0, -1.0], [1.0, 1.0, 2.0]]), np.array([[1.0, 0.0, 3.0], [0.0, -2.0, 1.0], [1.0, 1.0, 0.0]]),
                np.array([[0.5, 0.5, 0.5], [-1.0, 2.0, 0.0], [3.0, 0.0, -1.0]]), np.array([[2.0, -1.0, 0.5], [0.5, 1.0, -1.0], [1.0, 1.0, 2.0]]) * 7.0]
        for dtype in ("float64", "float32"):
            dt = getattr(torch, dtype)
            mk = {"imtlg": lambda: IMTLG(), "config": lambda: ConFIG(), "config|p": lambda: ConFIG(pref_vector=torch.tensor([1.0, 2.0, 3.0], dtype=dt)),
                  "aligned": lambda: AlignedMTL(), "aligned|p": lambda: AlignedMTL(pref_vector=torch.tensor([3.0, 1.0, 2.0], dtype=dt))}
            for name, new in mk.items():
                agg, buf = new(), torch.zeros(3, 3, dtype=dt)
                for step, J in enumerate(mats + mats[:1]):
                    buf.copy_(torch.tensor(J, dtype=dt))
                    acc.execs += 2
                    try:
                        x = agg(buf).double().numpy()
                        y = new()(torch.tensor(J, dtype=dt)).double().numpy()
                    except Exception as e:
                        acc.viol.append(dict(sig=f"exception:{name}:{type(e).__name__}", msg=f"{name} {dtype} buffer step {step}: {e!r}"[:300]))
                        break
                    acc.nontriv += 1
                    acc.outcomes.add(f"br:{name}:{dtype}:{step}")
                    if x.tobytes() != y.tobytes():
                        acc.viol.append(dict(sig=f"stateful-on-refilled-buffer:{name.split('|')[0]}", cls=f"buffer:{name}:{dtype}",
                                             msg=f"{name} {dtype}: step {step} on a re-filled buffer holding {J.tolist()} gives {x.tolist()}, a new instance on a new tensor {y.tolist()}"))
                        break
        return
    # wide: condition numbers 10 and 3, 100 000 and 300 000 columns: re-balanced rows orthogonal and of length sigma_min
    k = case["k"]
    sv = [(1.0, 0.5, 0.1), (1.0, 0.6, 1.0 / 3.0)][k]
    n = (100000, 300000)[k]
    J = np.zeros((3, n))
    for i in range(3):
        J[i, i::3] = sv[i] / math.sqrt(len(range(i, n, 3)))  # three orthogonal rows of norms sv, spread over all columns
    for dtype in ("float64", "float32"):
        dt = getattr(torch, dtype)
        Jt = torch.tensor(J, dtype=dt)
        R = []
        for i in range(3):
            e = np.zeros(3)
            e[i] = 1.0
            acc.execs += 1
            R.append(AlignedMTL(pref_vector=torch.tensor(e, dtype=dt))(Jt).double().numpy())
        R = np.array(R)
        G = R @ R.T
        tol = (1e-9 if dtype == "float64" else 6e-3) * sv[0] ** 2
        err = float(np.abs(G - (sv[2] ** 2) * np.eye(3)).max())
        acc.mg(f"aligned-wide:{dtype}", err / tol)
        acc.nontriv += 1
        acc.outcomes.add(f"wide:{k}:{dtype}")
        if not (err <= tol):
            acc.viol.append(dict(sig="aligned-rebalanced-rows-not-orthogonal-of-length-sigma-min:wide", cls=f"wide:{dtype}",
                                 msg=f"AlignedMTL on a 3x{n} matrix with singular values {sv} ({dtype}): R R^T={np.round(G, 6).tolist()} expected {sv[2] ** 2:.4g} * I"))


def run_case(case):
    acc = _Acc()
    if case["kind"] == "special":
        _run_special(acc, case)
        return acc.result()
    if case["kind"] == "zero":
        _run_zero(acc, case)
        _AGG.clear()
        return acc.result()
    m, n = case["m"], case["n"]
    if case["kind"] == "int":
        ent = tuple(case["ent"])
        mats = [A.ternary_index(m, n, i, entries=ent) for i in range(case["lo"], case["hi"])]
        tag = f"{m}x{n}"
    elif case["kind"] == "intlist":
        ent = tuple(case["ent"])
        mats = [A.ternary_index(m, n, i, entries=ent) for i in case["idx"]]
        tag = f"{m}x{n}neg"
    else:
        mats = A.dense(case["seed"], m, n, 8)
        if len(mats) != 8:
            raise HarnessError("dense family changed size")
        tag = f"D{m}x{n}"
    for J0 in mats:
        if not _well_posed(J0):
            acc.dropped += 1
            acc.cnt("dropped_rank_or_cond")
            continue
        lite = case.get("mode") == "lite"
        for t in case["scales"]:
            for dtype in case["dtypes"]:
                _check_matrix(acc, J0, t, dtype, tag, lite)
        if case.get("extra32"):
            _check_matrix(acc, J0, 1.0, "float32", tag, lite)
    return acc.result()
