"""C06 — gradients accumulate; nothing but the requested .grad fields is touched (DESIGN §3 C06).

E-hist, explicit-state: depth-bounded search over event histories on ONE retained graph. The state between
events is exactly the tuple of .grad contents (everything else is checked immutable at every step), so the
search snapshots/restores .grad and deduplicates on (ledger state, remaining depth). Events: backward /
mtl_backward with chunk None or 1, zeroing, setting to None and in-place edits of each parameter's .grad.
"""
from __future__ import annotations

import numpy as np

from mc.runner import digest

SPEC = dict(
    property_id="C06",
    level="model_checking",
    rule=(
        "state = per-parameter .grad contents (None or bytes) on one retained graph; transition = one event (a real "
        "backward/mtl_backward call, .grad.zero_(), .grad=None, .grad.add_(1)) applied to the live objects; all histories up to "
        "the depth bound are explored with deduplication on (state, remaining depth); invariants are evaluated after every "
        "transition; non-trivial = distinct transitions that are a torchjd call on a state where at least one requested .grad "
        "already exists (accumulation rather than creation)"
    ),
    bound=dict(quick="16 programs (incl. transposed leaves, parameters used through their transpose, aggregator weights requiring grad, empty "
                    "parameters, generator inputs, empty shared list) x 2 initial states (all None / arbitrary content, non-contiguous for 2-d) x all histories of <= 4 events; "
                    "plus pre-existing .grad fields that are one tensor / overlapping views of one buffer", thorough="<= 6 events"),
    assumptions=[
        "graphs without retain_grad() tensors; deterministic aggregators (Constant, Mean, UPGrad)",
        "the graph is retained (retain_graph=True) so that calls can be repeated; freed-graph behaviour is C13",
        "memory sharing is decided by storage address ranges of all tensors the harness can reach (leaves, intermediates, "
        "outputs, features, other .grad fields, the matrix given to and the vector returned by the aggregator)",
    ],
)

PROGRAMS = ("strided-leaf", "mtl-strided", "grad-weights", "empty-param", "mtl-noshared", "matrix", "gen-inputs", "shared-subexpr", "sum-heads", "equal-sized", "unrequested", "unreachable", "nograd-leaf", "mtl", "mtl-shared-taskparam", "mtl-unreachable")
DETERMINISM_SLICE = 4


def gen_cases(tier, seed):
    depth = 4 if tier == "quick" else 6
    cases = []
    for prog in PROGRAMS:
        for init in ("none", "content"):
            for agg in ("const", "upgrad"):
                # split the search at the first event to get enough parallel cases
                for first in range(17):
                    cases.append(dict(prog=prog, init=init, agg=agg, depth=depth, first=first, seed=seed))
    # two requested parameters whose pre-existing .grad fields ARE one tensor, or overlapping views of one buffer (arbitrary
    # pre-existing content): every update is ADDED to what is there, so the shared memory receives both (added after a seeded change
    # that computed all new values first and wrote them afterwards: the last write won)
    for prog in ("shared-subexpr", "gen-inputs", "equal-sized"):
        for agg in ("const", "upgrad"):
            cases.append(dict(prog=prog, init="aliased", agg=agg, depth=depth, first=0, seed=seed))
    return cases


# ----------------------------------------------------------------------------- programs
def _build(prog, aggname):
    import torch
    from torchjd import backward, mtl_backward
    from torchjd.aggregation import Constant, UPGrad

    from mc.seams import RecordingAggregator

    T = lambda v, rg=True: torch.tensor(v, dtype=torch.float64, requires_grad=rg)  # noqa: E731
    a, b, c = T([1.0, -2.0]), T([0.5, 3.0]), T(1.5)
    n = T([2.0, 7.0], rg=False)
    other = []

    def mk_agg(m):
        inner = Constant(torch.tensor([1.0, -2.0, 3.0, 5.0][:m], dtype=torch.float64)) if aggname == "const" else UPGrad()
        return RecordingAggregator(inner)

    if prog == "strided-leaf":  # a leaf stored transposed (dense, non-contiguous) and a contiguous one whose gradient arrives transposed
        Wt = torch.tensor([[0.5, -1.0, 2.0], [1.5, 0.25, -0.75]], dtype=torch.float64).t().requires_grad_()  # shape (3, 2), strides (1, 3)
        V = T([[1.0, 2.0, -1.0], [0.5, -0.5, 3.0]])
        outs = [(Wt * V.t()).sum() * c, (Wt * Wt).sum() + (V.t() * V.t() * Wt.detach()).sum()]
        req, inter = [Wt, V, c], outs
        call = lambda k, agg: backward(outs, agg, inputs=req, retain_graph=True, parallel_chunk_size=k)  # noqa: E731
        m = 2
    elif prog == "mtl-strided":  # the same layouts in mtl_backward: transposed shared leaf, task parameter used through its transpose
        Wt = torch.tensor([[0.5, -1.0, 2.0], [1.5, 0.25, -0.75]], dtype=torch.float64).t().requires_grad_()
        V = T([[1.0, 2.0, -1.0], [0.5, -0.5, 3.0]])
        f = Wt * c
        losses = [(f * V.t()).sum(), (f * f).sum() + (V.t() * V.t()).sum()]
        req, inter = [Wt, c, V], [f] + losses
        other = [a, b]
        call = lambda k, agg: mtl_backward(losses, [f], agg, tasks_params=[[V], [V]], shared_params=[Wt, c], retain_graph=True,  # noqa: E731
                                           parallel_chunk_size=k)
        m = 2
    elif prog == "grad-weights":  # the aggregator's own weights require grad: the update is attached to a graph, it is accumulated all the same
        h = a * b
        outs = [h.sum() * c, (h * h).sum()]
        req, inter = [a, b, c], [h] + outs
        call = lambda k, agg: backward(outs, agg, inputs=req, retain_graph=True, parallel_chunk_size=k)  # noqa: E731
        m = 2
        wts = torch.tensor([1.0, -2.0], dtype=torch.float64, requires_grad=True)
        mk_agg = lambda m_: RecordingAggregator(Constant(wts) if aggname == "const" else UPGrad(pref_vector=wts * wts))  # noqa: E731
    elif prog == "empty-param":  # a requested parameter with zero elements: its .grad is created (empty) like any other
        e = torch.zeros(0, dtype=torch.float64, requires_grad=True)
        e2 = torch.zeros((2, 0), dtype=torch.float64, requires_grad=True)
        outs = [(a * c).sum() + e.sum(), a.sum() * c + e2.sum()]
        req, inter = [a, e, e2, c], outs
        call = lambda k, agg: backward(outs, agg, inputs=req, retain_graph=True, parallel_chunk_size=k)  # noqa: E731
        m = 2
    elif prog == "mtl-noshared":  # explicit empty shared_params: the heads still accumulate their own gradients
        f = a * c
        p1, p2 = T([0.3, 0.9]), T([1.1, -0.7])
        losses = [(f * p1).sum(), (f * p2).sum() + (p1 * p2).sum()]
        req, inter = [p1, p2], [f] + losses
        other = [a, b, c]
        call = lambda k, agg: mtl_backward(losses, [f], agg, tasks_params=[[p1], [p1, p2]], shared_params=[], retain_graph=True,  # noqa: E731
                                           parallel_chunk_size=k)
        m = 2
    elif prog == "matrix":  # a 2-d parameter: with init "content" its pre-existing .grad is dense but NOT contiguous (column-major)
        W = T([[0.5, -1.0, 2.0], [1.5, 0.25, -0.75]])
        outs = [(W.t() @ a).sum() * c, (W * W).sum()]
        req, inter = [W, a, c], outs
        call = lambda k, agg: backward(outs, agg, inputs=req, retain_graph=True, parallel_chunk_size=k)  # noqa: E731
        m = 2
    elif prog == "gen-inputs":  # inputs given as a one-shot iterator, tensors as a tuple
        h = a * b
        outs = [h.sum() * c, (h * h).sum()]
        req, inter = [a, b, c], [h] + outs
        call = lambda k, agg: backward(tuple(outs), agg, inputs=(x for x in req), retain_graph=True, parallel_chunk_size=k)  # noqa: E731
        m = 2
    elif prog == "shared-subexpr":
        t = a + b  # autograd hands the SAME gradient tensor to a and to b
        outs = [t.sum() * c, (t * t).sum()]
        req, inter = [a, b, c], [t] + outs
        call = lambda k, agg: backward(outs, agg, inputs=req, retain_graph=True, parallel_chunk_size=k)  # noqa: E731
        m = 2
    elif prog == "sum-heads":
        outs = [a.sum(), (a.sum() + b.sum()) * 2.0, c * c]  # gradients of sum() are expanded (stride 0) views
        req, inter = [a, b, c], outs
        call = lambda k, agg: backward(outs, agg, inputs=req, retain_graph=True, parallel_chunk_size=k)  # noqa: E731
        m = 3
    elif prog == "equal-sized":
        h = a * b
        outs = [h, h.sum() * c]
        req, inter = [a, b], [h] + outs
        other = [c]
        call = lambda k, agg: backward(outs, agg, inputs=req, retain_graph=True, parallel_chunk_size=k)  # noqa: E731
        m = 3
    elif prog == "unrequested":
        outs = [(a * b).sum(), (a + b * c).sum()]
        req, inter = [b], outs
        other = [a, c]
        call = lambda k, agg: backward(outs, agg, inputs=req, retain_graph=True, parallel_chunk_size=k)  # noqa: E731
        m = 2
    elif prog == "unreachable":
        outs = [(a * c).sum(), a.sum() * c * c]  # b is requested but influences nothing: its update is zeros
        req, inter = [a, b, c], outs
        call = lambda k, agg: backward(outs, agg, inputs=req, retain_graph=True, parallel_chunk_size=k)  # noqa: E731
        m = 2
    elif prog == "nograd-leaf":
        outs = [(a * n).sum() * c, (a + n).sum()]
        req, inter = [a, c], outs
        other = [b]
        call = lambda k, agg: backward(outs, agg, inputs=None, retain_graph=True, parallel_chunk_size=k)  # noqa: E731
        m = 2
    else:
        f = a * c
        p1, p2 = T([0.3, 0.9]), T([1.1, -0.7])
        if prog == "mtl":
            losses = [(f * p1).sum(), (f * p2).sum() + f.sum()]
            tps = [[p1], [p2]]
        elif prog == "mtl-unreachable":  # b (shared) and p2 (listed by task 0) influence nothing there
            losses = [(f * p1).sum(), f.sum() * 2.0]
            tps = [[p1, p2], []]
        else:  # a parameter shared by both tasks, and a head of the form (p1 + p2): same gradient object for both
            losses = [(f * (p1 + p2)).sum(), (f * p2).sum()]
            tps = [[p1, p2], [p2]]
        shared = [a, b, c] if prog == "mtl-unreachable" else [a, c]
        req, inter = shared + [p1, p2], [f] + losses
        other = [] if prog == "mtl-unreachable" else [b]
        call = lambda k, agg: mtl_backward(losses, [f], agg, tasks_params=tps, shared_params=shared, retain_graph=True,  # noqa: E731
                                           parallel_chunk_size=k)
        m = 2
    return dict(req=req, other=other + [n], inter=inter, call=call, mk_agg=mk_agg, m=m)


def _ranges(t):
    """storage address range occupied by tensor t (conservative: whole span from min to max offset)."""
    if t is None or t.numel() == 0:
        return None
    base = t.untyped_storage().data_ptr()
    es = t.element_size()
    lo = t.storage_offset()
    hi = lo + sum((s - 1) * abs(st) for s, st in zip(t.shape, t.stride())) + 1
    return (base + lo * es, base + hi * es)


def _overlap(r1, r2):
    return r1 is not None and r2 is not None and r1[0] < r2[1] and r2[0] < r1[1]


def run_case(case):
    import torch

    from mc.seams import SetOrderSeam

    G = _build(case["prog"], case["agg"])
    req, other, inter = G["req"], G["other"], G["inter"]
    params = req + other
    # every set(...) built inside torchjd.autojac iterates in a fixed order: last-bit reproducibility of non-linear aggregators
    _rank = {id(p): i for i, p in enumerate(params + inter)}
    _raw_call = G["call"]

    def _pinned(k, agg):
        with SetOrderSeam(lambda x: _rank.get(id(x), 10 ** 6)):
            return _raw_call(k, agg)

    G["call"] = _pinned
    values0 = [p.detach().numpy().tobytes() for p in params] + [t.detach().numpy().tobytes() for t in inter]
    # ledger increment of each call type, measured once from the all-None state (bit-exact reference for every later state)
    delta = {}
    pre_viol = []
    for k in (None, 1):
        for p in params:
            p.grad = None
        try:
            G["call"](k, G["mk_agg"](G["m"]))
        except Exception as e:
            return dict(viol=[dict(sig=f"exception:{type(e).__name__}", msg=f"{case['prog']} first call k={k}: {e!r}"[:400])], execs=1,
                        outcomes=["exc"], nontrivial=0)
        if any(p.grad is None for p in req):
            return dict(viol=[dict(sig="grad-not-created", msg=f"{case['prog']} first call k={k}")], execs=1, outcomes=["exc"], nontrivial=0)
        delta[k] = [p.grad.detach().numpy().copy() for p in req]
    for x, y in zip(delta[None], delta[1]):
        if x.size and not (float(np.abs(x - y).max()) <= 1e-12 * max(1.0, float(np.abs(x).max()))):
            pre_viol.append(dict(sig="update-depends-on-chunk-size", msg=f"{case['prog']}: {x.tolist()} vs {y.tolist()}"))
    for p in params:
        p.grad = None
    if case["init"] == "aliased":
        viol, execs, outcomes = list(pre_viol), 2, set()
        a_, b_ = req[0], req[1]  # both of shape (2,)
        for mode in ("same-tensor", "overlapping-views"):
            for k in (None, 1):
                for p in params:
                    p.grad = None
                if mode == "same-tensor":
                    buf = torch.tensor([0.25, -1.5], dtype=torch.float64)
                    a_.grad, b_.grad = buf, buf
                    exp1 = buf.numpy().copy() + delta[k][0] + delta[k][1]
                    upd = delta[k][0] + delta[k][1]
                else:
                    buf = torch.tensor([0.25, -1.5, 4.0], dtype=torch.float64)
                    a_.grad, b_.grad = buf[0:2], buf[1:3]
                    upd = np.array([delta[k][0][0], delta[k][0][1] + delta[k][1][0], delta[k][1][1]])
                    exp1 = buf.numpy().copy() + upd
                ptr = buf.data_ptr()
                ok = True
                for rep in (1, 2):
                    try:
                        G["call"](k, G["mk_agg"](G["m"]))
                        execs += 1
                    except Exception as e:
                        viol.append(dict(sig=f"exception:{type(e).__name__}", cls=f"exc:aliased:{mode}", msg=f"{case['prog']} aliased .grad ({mode}) k={k}: {e!r}"[:400]))
                        ok = False
                        break
                    exp = exp1 + (rep - 1) * upd
                    got = buf.numpy()
                    mag = np.abs(exp) + np.abs(upd) * rep + 4.0
                    if a_.grad.data_ptr() != ptr or not bool(np.all(np.abs(got - exp) <= 8 * np.finfo(np.float64).eps * mag)):
                        viol.append(dict(sig="aliased-grad-lost-update", cls=f"aliased:{case['prog']}:{mode}",
                                         msg=f"{case['prog']} agg={case['agg']} k={k}: req[0].grad and req[1].grad are {mode} of one buffer; after call #{rep} the "
                                             f"buffer holds {got.tolist()}, expected previous content plus both updates {exp.tolist()}"))
                        ok = False
                        break
                outcomes.add(f"aliased:{mode}:{k}:{ok}")
        for p in params:
            p.grad = None
        return dict(viol=viol, execs=execs, outcomes=sorted(outcomes), nontrivial=len(outcomes))
    if case["init"] == "content":
        for i, p in enumerate(params):
            if i % 2 == 0:
                if p.dim() >= 2:  # dense, non-contiguous: what a plain loss.backward() leaves on a parameter stored transposed
                    g = (torch.arange(p.numel(), dtype=p.dtype).reshape(tuple(p.shape)[::-1]) * 0.125 + 0.5 + i).t()
                    p.grad = g
                else:
                    p.grad = torch.full_like(p, 0.5 + i)
    # events
    events = [("B", None), ("B", 1)]
    for i in range(len(req)):
        events += [("Z", i), ("N", i), ("E", i)]
    if case["first"] >= len(events):
        return dict(viol=[], execs=0, outcomes=["none"], nontrivial=0)
    viol, outcomes, execs, nontriv = list(pre_viol), set(), 2, 0
    seen = {}
    n_states = [0]

    def snap():
        return [None if p.grad is None else p.grad.detach().clone() for p in params]

    def restore(s):
        for p, g in zip(params, s):
            p.grad = None if g is None else g.clone()

    def key():
        return tuple(None if p.grad is None else p.grad.detach().numpy().tobytes() for p in params)

    def enabled(ev):
        kind, arg = ev
        if kind == "B":
            return True
        g = req[arg].grad
        return g is not None

    def check_values(hist):
        now = [p.detach().numpy().tobytes() for p in params] + [t.detach().numpy().tobytes() for t in inter]
        if now != values0:
            idx = [i for i, (x, y) in enumerate(zip(now, values0)) if x != y]
            viol.append(dict(sig="tensor-value-modified", msg=f"{case['prog']} history={hist}: values of tensors {idx} changed"))
            return False
        return True

    def apply(ev, hist):
        nonlocal execs, nontriv
        kind, arg = ev
        before = snap()
        ids_before = [None if p.grad is None else p.grad.data_ptr() for p in params]
        if kind == "B":
            agg = G["mk_agg"](G["m"])
            existed = any(p.grad is not None for p in req)
            try:
                G["call"](arg, agg)
            except Exception as e:
                viol.append(dict(sig=f"exception:{type(e).__name__}", cls=f"exc:{case['prog']}", msg=f"{case['prog']} history={hist}: {e!r}"[:500]))
                return False
            execs += 1
            nontriv += int(existed)
            # (iii) unrequested untouched
            for j, p in enumerate(other):
                b0 = before[len(req) + j]
                if (b0 is None) != (p.grad is None) or (b0 is not None and not torch.equal(b0, p.grad)):
                    viol.append(dict(sig="unrequested-grad-touched", msg=f"{case['prog']} history={hist}: other[{j}]"))
                    return False
            # (i) ledger
            for j, p in enumerate(req):
                exp = delta[arg][j] if before[j] is None else before[j].numpy() + delta[arg][j]
                got = p.grad.detach().numpy()
                # bit-exact for a single in-place add; a task parameter listed by several tasks receives several adds in sequence,
                # (previous + g1) + g2, which may differ from previous + (g1 + g2) in the last bit: 4 ulp are allowed there
                exact = got.shape == exp.shape and got.tobytes() == np.ascontiguousarray(exp).tobytes()
                if not exact and case["prog"].startswith("mtl") and got.shape == exp.shape and got.size:
                    mag = np.abs(exp) + np.abs(delta[arg][j]) + (0.0 if before[j] is None else np.abs(before[j].numpy()))
                    exact = bool(np.all(np.abs(got - exp) <= 4 * np.finfo(np.float64).eps * mag))
                if not exact:
                    viol.append(dict(sig="ledger-mismatch", cls=f"ledger:{case['prog']}:{'create' if before[j] is None else 'accumulate'}",
                                     msg=f"{case['prog']} agg={case['agg']} history={hist}: req[{j}] got {got.tolist()} expected previous+update "
                                         f"{np.asarray(exp).tolist()} (previous {None if before[j] is None else before[j].tolist()})"))
                    return False
                if before[j] is not None and p.grad.data_ptr() != ids_before[j]:
                    # reading of "add to an existing .grad instead of replacing it": the existing gradient tensor (its storage,
                    # which the property lists among the things to observe) receives the update; a handle kept by the user or a
                    # flat buffer the .grad fields are views of must see it.
                    viol.append(dict(sig="existing-grad-replaced", cls=f"replaced:{case['prog']}",
                                     msg=f"{case['prog']} history={hist}: req[{j}] existing .grad storage was replaced instead of added to"))
                    return False
            # (iv) fresh .grad shares memory with nothing
            fresh = [j for j in range(len(req)) if before[j] is None]
            reach = [("param", p) for p in params] + [("inter", t) for t in inter]
            reach += [("grad", p.grad) for p in params if p.grad is not None]
            for M_, x in agg.calls:
                reach += [("agg-in", M_), ("agg-out", x)]
            for j in fresh:
                g = req[j].grad
                try:  # a created .grad is an ordinary tensor: user code (zero_grad(set_to_none=False), clipping, torch's own backward) edits it in place
                    g.mul_(1.0)
                except Exception as e:
                    viol.append(dict(sig="fresh-grad-not-editable-in-place", cls=f"fresh-readonly:{case['prog']}",
                                     msg=f"{case['prog']} history={hist}: req[{j}].grad.mul_(1.0) raised {e!r}"[:400]))
                    return False
                rg = _ranges(g)
                for name, t in reach:
                    if t is g:
                        continue
                    if _overlap(rg, _ranges(t)):
                        viol.append(dict(sig="fresh-grad-shares-memory", cls=f"alias:{case['prog']}:{name}",
                                         msg=f"{case['prog']} history={hist}: fresh .grad of req[{j}] overlaps {name}"))
                        return False
                for j2 in range(len(req)):
                    if j2 != j and req[j2].grad is g:
                        viol.append(dict(sig="fresh-grad-same-object", msg=f"{case['prog']} history={hist}: req[{j}].grad is req[{j2}].grad"))
                        return False
        elif kind == "Z":
            req[arg].grad.zero_()
        elif kind == "N":
            req[arg].grad = None
        elif kind == "E":
            req[arg].grad.add_(1.0)
        if kind != "B":
            # user edits must only affect that one field (detects aliasing created earlier)
            for j, p in enumerate(params):
                if j == arg:
                    continue
                b0 = before[j]
                if (b0 is None) != (p.grad is None) or (b0 is not None and not torch.equal(b0, p.grad)):
                    viol.append(dict(sig="edit-of-one-grad-changed-another", cls=f"alias-edit:{case['prog']}",
                                     msg=f"{case['prog']} history={hist}: editing req[{arg}].grad changed params[{j}].grad"))
                    return False
        return check_values(hist)

    def dfs(hist, remaining):
        if remaining == 0 or len(viol) > 3:
            return
        for ei, ev in enumerate(events):
            if not hist and ei != case["first"]:
                continue
            if not enabled(ev):
                continue
            s = snap()
            h2 = hist + [list(ev)]
            ok = apply(ev, h2)
            if ok:
                k = key()
                outcomes.add(digest([case["prog"], [None if x is None else x.hex()[:64] for x in k]]))
                if seen.get(k, -1) < remaining - 1:
                    seen[k] = remaining - 1
                    n_states[0] += 1
                    dfs(h2, remaining - 1)
            restore(s)

    dfs([], case["depth"])
    return dict(viol=viol, execs=execs, outcomes=sorted(outcomes), nontrivial=nontriv, counters=dict(states=n_states[0]))
