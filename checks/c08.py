"""C08 — weighted aggregators stay in the row span, Gramian-based ones commute with orthogonal changes of
coordinates, every deterministic aggregator commutes with column permutations and zero-column insertion
(DESIGN §3 C08).

E-enum over a finite matrix alphabet x a finite set of transformations x aggregator configurations, the draws of
PCGrad / Random / GradDrop being owned through mc.seams.DrawReplayer (GradDrop's draw has one entry per column and
is transported with the columns). Three kinds of cases:

  orbit  : for every orbit of {-1,0,1}-matrices under right multiplication by the hyperoctahedral group B_n the
           real aggregators are executed on EVERY member; then for every member J and EVERY Q in B_n the identity
           A(JQ) = A(J)Q is checked between the two recorded executions (JQ is again a member; JQ is exact in
           floating point). Pure column permutations are the sign-free subgroup; GradDrop / TrimmedMean are checked
           on that subgroup only. For n = 4 the group is S_4 (column permutations only).
  direct : for every matrix J of a block, A(J) and A(T(J)) are executed for T in Givens rotations by
           {pi/7, 1, 2.5} in every coordinate plane, one Householder reflection, and insertion of 1 or 2 all-zero
           columns at every position; for the dense family also every Q in B_n (n <= 3) / S_4 directly.
  (a)    : at every base execution of a weighted aggregator: x = weighting(J) @ J and the least-squares residual
           of x on the row span (the latter also for ConFIG, for which it follows from the equivariance claim).
"""
from __future__ import annotations

import itertools
import math

import numpy as np

from mc import aggkit as K
from mc import alphabets as A
from mc import refmodels as R
from mc.runner import digest

SPEC = dict(
    property_id="C08",
    level="exploration",
    exhaustive=True,
    rule=(
        "case = one B_n-orbit block ('orbit'), a block of matrices ('direct') or one dense matrix; execution = one call of "
        "a real aggregator configuration on one matrix; evaluation = one comparison (configuration, matrix J, "
        "transformation T): A(T J) against T A(J), or one span / combination test of a base execution; non-trivial = "
        "comparisons in which T J differs from J as a matrix AND A(J) is not the zero vector (the transformation is "
        "observable in the output)"
    ),
    bound=dict(
        quick=(
            "every B_n orbit of the {-1,0,1} matrices of shapes <= 2x3, 3x1, 3x2 completely (all members x all Q in B_n, n <= 3) for the "
            "13 fast aggregator classes; Givens / Householder / zero-column insertion (1 or 2 columns, every position) on the B_n-orbit "
            "representatives; MGDA and CAGrad (4-11 ms per call) on the orbits / members of the structural sublist (smallest member of "
            "each class under row permutation, column permutation and column sign flips; exhaustive:false for these two in this tier); "
            "3x3: structural sublist (136 classes, their full B_3 orbits), fast aggregators; D(seed) and dense2(seed), 2 matrices each, "
            "shapes 3x3,4x3,5x3 (every Q in B_3) and 2x4,3x4,4x4 (every permutation in S_4); special families: norm_eps above every entry, up to 70 000 "
            "zero columns, square-to-wide with sigma_min/sigma_max down to 1e-9, native-seed PCGrad/Random/GradDrop, instance re-use on temporaries and views, "
            "tall float32 Krum, torchjd.backward with row-/column-major parameters"
        ),
        thorough=(
            "all 21 297 {-1,0,1} matrices up to 3x3: every B_n orbit completely and Givens / Householder / zero-column insertion on every "
            "matrix, all aggregators - except on 3x3, where every matrix gets Givens / Householder / single zero-column insertion for the fast "
            "aggregators (one configuration per class plus ConFIG / AlignedMTL with a preference vector) and the 560 B_3-orbit representatives "
            "get the full transformation list (incl. two-column insertions) for all aggregators incl. MGDA / CAGrad; all 6 561 2x4 "
            "matrices under S_4; D(seed) and dense2(seed), 8 matrices each, m in 2..5, n in 2..4"
        ),
    ),
    assumptions=[
        "matrices off the finite alphabet are not covered; orthogonal Q = all of B_n (n <= 3), Givens rotations by pi/7, 1, 2.5 "
        "in each coordinate plane and one Householder reflection, not all of O(n); float64 only",
        "PCGrad under 2 fixed schedules (3 for the dense family), Random under one fixed draw, GradDrop under the S_n-closure of one draw vector "
        "(all of C18's schedules are not repeated here); new zero columns receive the draw 0.5",
        "pinv / eigh / conic-solver based aggregators (IMTL-G, ConFIG, Aligned-MTL, CAGrad) only on matrices whose singular "
        "values (of J, for ConFIG also of the unit rows) are all >= 1e-2 or <= 1e-9 relative to the largest; IMTL-G only where "
        "|1^T pinv(G) d| max(d) >= 1e-6 (its absolute guard is C11's finding)",
        "for transformations that are not exact in floating point (Givens, Householder, anything on non-integer matrices) Krum is "
        "only compared when the k-th and (k+1)-th score differ by >= 1e-6 relative, GradDrop only when no P_j is within 1e-9 of U_j, "
        "and MGDA is compared with the tight tolerance only when its Frank-Wolfe trajectory has no argmin tie (margin >= 1e-9); on a "
        "tie, rounding decides the vertex, so only the bound both results satisfy w.r.t. the min-norm point is asserted: "
        "|x-x'| <= 2 s sqrt(max(8 epsilon, 16/(max_iters+2)))",
        "MGDA and CAGrad additionally on diag(1, 1.37, 0.61) J for the structural sublist (generic row scaling removes most argmin ties, so that "
        "the tight MGDA oracle is exercised under Givens / Householder)",
        "tolerances: 1e-9 * sigma_max(J) * max(1, |weights|_inf); CAGrad 3e-4 (Clarabel stops at a 1e-8 duality gap; the objective "
        "g0.g + c|g0||g| has curvature c|g0|/|g| only, so the direction g_w/|g_w| the output depends on is determined to about "
        "sqrt(1e-8) = 1e-4; observed worst 1.7e-5 over the thorough tier of C08); x = w @ J: 1e-12 * s * |w| * m",
        "NashMTL (stateful, excluded from the deterministic clause) takes part in the row-span clause only, on a fresh instance, "
        "on the dense family and the structural sublist of 2x2 / 2x3",
        "the orbit cases compare two recorded executions instead of re-executing A(J) for each Q: this relies on nothing but the "
        "two outputs compared; purity/statelessness itself is C11",
    ],
)

DETERMINISM_SLICE = 8
TOL = 1e-9
TOL_BY_AGG = {"CAGrad": 3e-4}
ANGLES = (math.pi / 7, 1.0, 2.5)
SLOW = ("MGDA", "CAGrad")
QUICK_SHAPES = [(1, 1), (1, 2), (1, 3), (2, 1), (2, 2), (2, 3), (3, 1), (3, 2)]
INC5 = [1.0, 2.0, 3.0, 4.0, 5.0]
CONSTW = [1.0, -2.0, 0.5, 3.0, -0.25]
LEAK = [0.0, 0.5, 1.0, 0.25, 0.75]
RANDZ = [-2.0, 0.0, 3.0, 1.0, -1.0]
U1 = [0.25, 0.5, 0.999, 0.0]
U2 = [0.75, 0.0, 0.5, 0.25]
ROWSCALE = [1.0, 1.37, 0.61]


# ----------------------------------------------------------------------------- alphabets / orbits
def _digits(m, n):
    N = 3 ** (m * n)
    idx = np.arange(N)
    d = np.zeros((N, m * n), dtype=np.int64)
    for pos in range(m * n - 1, -1, -1):
        d[:, pos] = idx % 3
        idx = idx // 3
    return d.reshape(N, m, n)


def _index(d):
    N, m, n = d.shape
    w = 3 ** np.arange(m * n - 1, -1, -1)
    return d.reshape(N, m * n) @ w


def orbit_reps(m, n, signs=True, rows=False):
    """Smallest index of each orbit of T(m,n) under column permutations (x column sign flips if ``signs``)
    (x row permutations if ``rows`` — then it is alphabets.canonical_ternary as an index list)."""
    d = _digits(m, n)
    best = _index(d)
    rperms = list(itertools.permutations(range(m))) if rows else [tuple(range(m))]
    sgn = list(itertools.product((1, -1), repeat=n)) if signs else [(1,) * n]
    for rp in rperms:
        dr = d[:, list(rp), :]
        for cp in itertools.permutations(range(n)):
            dc = dr[:, :, list(cp)]
            for s in sgn:
                flip = np.array(s) < 0
                e = dc.copy()
                e[:, :, flip] = 2 - e[:, :, flip]
                best = np.minimum(best, _index(e))
    return sorted(set(best.tolist()))


def _blocks(xs, size):
    return [xs[i : i + size] for i in range(0, len(xs), size)]


def gen_cases(tier, seed):
    cases = []
    thorough = tier == "thorough"
    # the quick tier runs part of the aggregators on a stated structural sublist of the alphabet only
    SPEC["exhaustive"] = thorough
    shapes = A.SHAPES_LE3 if thorough else QUICK_SHAPES
    for (m, n) in shapes:
        reps = orbit_reps(m, n)
        canon = sorted(set(orbit_reps(m, n, rows=True)))
        gsize = math.factorial(n) * 2**n
        N = A.ternary_count(m, n)
        if thorough:
            for blk in _blocks(reps, max(1, 48 // gsize)):
                cases.append(dict(kind="orbit", m=m, n=n, reps=blk, aggs="all", seed=seed))
            if (m, n) == (3, 3):
                # 3x3 (19 683 matrices, 25 direct transformations each): the fast aggregators see the inexact transformations and
                # the single zero-column insertions on EVERY matrix; MGDA / CAGrad (4-11 ms per call) and the two-column
                # insertions run on the 560 B_3-orbit representatives with the full transformation list (stated bound)
                for lo in range(0, N, 8):
                    cases.append(dict(kind="direct", m=m, n=n, idx=list(range(lo, min(N, lo + 8))), aggs="fast", seed=seed, thin="no-2col"))
                for blk in _blocks(reps, 3):
                    cases.append(dict(kind="direct", m=m, n=n, idx=blk, aggs="all", seed=seed))
            else:
                for lo in range(0, N, 12):
                    cases.append(dict(kind="direct", m=m, n=n, idx=list(range(lo, min(N, lo + 12))), aggs="all", seed=seed))
            if m >= 2:
                for blk in _blocks(canon, 3):
                    cases.append(dict(kind="direct", m=m, n=n, idx=blk, aggs="slow", seed=seed, rowscale=True))
        else:
            for blk in _blocks(reps, max(1, 64 // gsize)):
                cases.append(dict(kind="orbit", m=m, n=n, reps=blk, aggs="fast", seed=seed))
            for blk in _blocks(canon, max(1, 32 // gsize)):
                cases.append(dict(kind="orbit", m=m, n=n, reps=blk, aggs="slow", seed=seed))
            for blk in _blocks(reps, 6):
                cases.append(dict(kind="direct", m=m, n=n, idx=blk, aggs="fast", seed=seed))
            for blk in _blocks(canon, 3):
                cases.append(dict(kind="direct", m=m, n=n, idx=blk, aggs="slow", seed=seed))
                if m >= 2:  # generic row scaling: MGDA trajectories without argmin ties under the inexact transformations
                    cases.append(dict(kind="direct", m=m, n=n, idx=blk, aggs="slow", seed=seed, rowscale=True))
    if not thorough:
        canon33 = orbit_reps(3, 3, rows=True)
        for blk in _blocks(canon33, 2):
            cases.append(dict(kind="orbit", m=3, n=3, reps=blk, aggs="fast", seed=seed))
        for blk in _blocks(canon33, 6):
            cases.append(dict(kind="direct", m=3, n=3, idx=blk, aggs="fast", seed=seed))
    # S_4 on 2x4 ternary matrices (thorough) — column permutations only
    if thorough:
        reps = orbit_reps(2, 4, signs=False)
        for blk in _blocks(reps, 3):
            cases.append(dict(kind="orbit", m=2, n=4, reps=blk, aggs="all", seed=seed, group="S"))
    dshapes = (
        [(m, n) for m in (2, 3, 4, 5) for n in (2, 3, 4)] if thorough else [(3, 3), (4, 3), (5, 3), (2, 4), (3, 4), (4, 4)]
    )
    for (m, n) in dshapes:
        for k in (range(16) if thorough else (0, 1, 8, 9)):
            cases.append(dict(kind="dense", m=m, n=n, k=k, aggs="all", seed=seed))
    # special families added after three seeded changes were missed (DESIGN 7.4): entries below norm_eps <= sigma_max, thousands of
    # zero columns, and tall float32 matrices with a large common offset
    for (m, n) in ((2, 3), (3, 3)):
        for blk in _blocks(sorted(set(orbit_reps(m, n, rows=True))), 8):
            cases.append(dict(kind="special", what="big-norm-eps", m=m, n=n, idx=blk))
    for k in range(8):
        cases.append(dict(kind="special", what="wide-zero-columns", k=k))
    cases.append(dict(kind="special", what="square-to-wide"))
    for k in range(4):
        cases.append(dict(kind="special", what="backward-layout", k=k, seed=seed))
    for k in range(3):
        cases.append(dict(kind="special", what="native-seed", k=k))
    for k in range(2):
        cases.append(dict(kind="special", what="instance-reuse", k=k))
    for m in (26, 30):
        for off in (0.0, 1e4):
            cases.append(dict(kind="special", what="tall-krum-float32", m=m, offset=off))
    return cases


def dense_matrix(seed, m, n, k):
    """k < 8: alphabets.dense (numerically rank 2 + 1e-3 noise); k >= 8: aggkit.dense2 (generic full rank)."""
    return A.dense(seed, m, n, 8)[k] if k < 8 else K.dense2(seed, m, n, 8)[k - 8]


# ----------------------------------------------------------------------------- configurations
def configs(m, n, which, dense=False):
    """Aggregator configurations for an m-row matrix. ``which`` in fast / slow / all."""
    inc = [v / sum(INC5[:m]) for v in INC5[:m]]
    tiny = [1e-3] + [1.0] * (m - 1)
    fast, slow = [], []
    fast += [dict(name="UPGrad", p=None), dict(name="UPGrad", p=inc), dict(name="DualProj", p=None)]
    if m >= 2:
        fast.append(dict(name="DualProj", p=tiny))
    fast += [dict(name="PCGrad", sched="id"), dict(name="PCGrad", sched="rev")]
    if dense:
        fast.append(dict(name="PCGrad", sched="rot"))
    fast += [dict(name="IMTLG"), dict(name="AlignedMTL", p=None), dict(name="AlignedMTL", p=inc)]
    fast += [dict(name="ConFIG", p=None), dict(name="ConFIG", p=inc)]
    if m == 3:
        fast += [dict(name="Krum", f=0, k=1), dict(name="Krum", f=0, k=2)]
    if m == 4:
        fast += [dict(name="Krum", f=0, k=1), dict(name="Krum", f=1, k=1), dict(name="Krum", f=1, k=2), dict(name="Krum", f=0, k=3)]
    if m == 5:
        fast += [dict(name="Krum", f=1, k=2), dict(name="Krum", f=2, k=1), dict(name="Krum", f=0, k=3)]
    fast += [dict(name="Mean"), dict(name="Sum"), dict(name="Constant", p=CONSTW[:m]), dict(name="Random", z=RANDZ[:m])]
    fast += [dict(name="TrimmedMean", b=b) for b in range(0, (m - 1) // 2 + 1)]
    fast += [dict(name="GradDrop", p=None, U=U1[:n]), dict(name="GradDrop", p=LEAK[:m], U=U1[:n]), dict(name="GradDrop", p=None, U=U2[:n])]
    slow += [dict(name="MGDA"), dict(name="CAGrad", c=0.5)]
    if m * n <= 6 or dense:
        slow.append(dict(name="CAGrad", c=2.0))
    return {"fast": fast, "slow": slow, "all": fast + slow}[which]


def graddrop_closure(cfgs, n):
    """Replace the GradDrop configurations by the leak-carrying one under every distinct permutation of the draw U1
    (an S_n-closed set of draws, so that the transported configuration of a member is again in the table)."""
    out = [c for c in cfgs if c["name"] != "GradDrop"]
    seen = set()
    for perm in itertools.permutations(range(n)):
        U = [U1[i] for i in perm]
        if tuple(U) in seen:
            continue
        seen.add(tuple(U))
        for c in cfgs:
            if c["name"] == "GradDrop" and c["U"] == U1[:n] and c["p"] is not None:
                out.append(dict(c, U=U))
    return out


Ctx, Pred, MGDA_LOOSE = K.Ctx, K.Pred, K.MGDA_LOOSE


def base_checks(ctx, cfg, J, pred, out):
    """Clause (a) on one base execution + outcome digest. ``out`` = (x, w)."""
    x, w = out
    s = pred.s
    name, lab = cfg["name"], K.cfg_label(cfg)
    wsc = K.weights_scale(w, x, s)
    ctx.outcomes.add(digest([lab, np.round(x / (max(s, 1e-300) * wsc), 6).tolist()]))
    desc = lambda: f"{K.cfg_key(cfg)} J={J.tolist()} x={x.tolist()} w={None if w is None else w.tolist()}"  # noqa: E731
    if not np.all(np.isfinite(x)):
        ctx.viol.append(dict(sig=f"nonfinite-output:{name}", msg=desc()[:600]))
        return False
    m = J.shape[0]
    if w is not None:
        if w.shape != (m,):
            ctx.viol.append(dict(sig=f"bad-weights-shape:{name}", msg=desc()[:600]))
            return False
        err = float(np.abs(x - J.T @ w).max()) if x.size else 0.0
        ctx.compare(f"combine:{lab}", err, 1e-12 * max(s, 1e-300) * wsc * max(m, 1), f"not-weights@J:{name}", desc)
    if w is not None or name == "ConFIG":
        res = R.lstsq_residual(J, x)
        tol = TOL * max(s, 1e-300) * wsc
        if name == "ConFIG" and pred.zero_direction(cfg):
            ctx.zero_direction("span", res, tol, desc)
        else:
            ctx.compare(f"span:{lab}", res, tol, f"outside-row-span:{name}", desc)
    return True


def compare_transformed(ctx, cfg, pred, J, base, got, expect, tname, exact, moved):
    """``base`` = (x, w) on J; ``got`` = output on T(J); ``expect`` = T(x)."""
    name, lab = cfg["name"], K.cfg_label(cfg)
    adm = pred.admissible(cfg, exact)
    if adm is not None and adm.startswith("drop:"):
        ctx.dropped += 1
        ctx.count(adm)
        return
    x, w = base
    s = max(pred.s, 1e-300)
    wsc = K.weights_scale(w, x, s)
    err = float(np.abs(got - expect).max()) if got.size else 0.0
    if not np.all(np.isfinite(got)):
        err = math.inf
    kind = tname.split(":")[0]
    if adm == "zero-direction":
        clause = {"perm": "permutation", "zero-column": "zero-column"}.get(kind, "orthogonal")
        ctx.zero_direction(clause, err, TOL * s * wsc,
                           lambda: f"{K.cfg_key(cfg)} J={J.tolist()} T={tname}: A(TJ)={got.tolist()} T(A(J))={expect.tolist()}")
        return
    if adm == "mgda-tie":
        ctx.count("mgda-tie-comparisons")
        tol, oracle, sig = MGDA_LOOSE * s, f"{kind}:MGDA(argmin tie, loose bound)", f"{kind}:MGDA-tie"
    else:
        tol, oracle, sig = TOL_BY_AGG.get(name, TOL) * s * wsc, f"{kind}:{lab}", f"{kind}:{name}"
        if name == "MGDA":
            ctx.count("mgda-tight-comparisons(inexact T)")
    if moved and bool(np.any(x != 0)):
        ctx.nontrivial += 1
    ctx.compare(oracle, err, tol, sig,
                lambda: f"{K.cfg_key(cfg)} J={J.tolist()} T={tname}: A(TJ)={got.tolist()} T(A(J))={expect.tolist()} err={err:.3g} tol={tol:.3g}")


# ----------------------------------------------------------------------------- case runners
def run_orbit(case, ctx):
    m, n = case["m"], case["n"]
    group = case.get("group", "B")
    elems = K.signed_perms(n) if group == "B" else [(list(p), [1.0] * n) for p in itertools.permutations(range(n))]
    cfgs = graddrop_closure(configs(m, n, case["aggs"]), n)
    if case["aggs"] == "slow":
        cfgs = [c for c in cfgs if c["name"] in SLOW]
    for rep in case["reps"]:
        J0 = A.ternary_index(m, n, rep)
        members = {}
        for src, sg in elems:
            M = K.apply_cols(J0, src, sg)
            members.setdefault(M.tobytes(), M)
        table, preds = {}, {}
        for kb, M in members.items():
            preds[kb] = Pred(M)
            for cfg in cfgs:
                out = ctx.call(cfg, M)
                if out is not None and base_checks(ctx, cfg, M, preds[kb], out):
                    table[(kb, K.cfg_key(cfg))] = out
        # vectorised comparison of the recorded executions: X[kb] = outputs of all configurations on member kb
        keys = [K.cfg_key(c) for c in cfgs]
        kidx = {k: i for i, k in enumerate(keys)}
        nc = len(cfgs)
        gram = np.array([c["name"] in K.GRAMIAN_BASED for c in cfgs])
        X, valid, tol, status, nonzero, reason = {}, {}, {}, {}, {}, {}
        for kb, M in members.items():
            pr = preds[kb]
            Xm, vm, tm, st = np.full((nc, n), np.nan), np.zeros(nc, bool), np.ones(nc), np.zeros(nc, int)
            rs = [None] * nc
            for i, cfg in enumerate(cfgs):
                out = table.get((kb, keys[i]))
                if out is None:
                    continue  # the exception / nonfinite output was already reported
                Xm[i], vm[i] = out[0], True
                tm[i] = TOL_BY_AGG.get(cfg["name"], TOL) * max(pr.s, 1e-300) * K.weights_scale(out[1], out[0], pr.s)
                adm = pr.admissible(cfg, True)
                rs[i] = adm
                st[i] = 0 if adm is None else (3 if adm == "zero-direction" else (2 if adm == "mgda-tie" else 1))
            if np.any(st == 2):
                raise RuntimeError("MGDA tie predicate consulted for an exact transformation")
            X[kb], valid[kb], tol[kb], status[kb], nonzero[kb] = Xm, vm, tm, st, np.any(Xm != 0, axis=1) & vm
            reason[kb] = rs
        maxr = {"perm": np.zeros(nc), "signedperm": np.zeros(nc)}
        for src, sg in elems:
            pure = all(v > 0 for v in sg)
            kindname = "perm" if pure else "signedperm"
            mapidx = np.array([kidx[K.cfg_key(K.map_cols_cfg(c, src))] for c in cfgs])
            appl = gram | pure
            sgv = np.asarray(sg)
            for kb, M in members.items():
                kb2 = K.apply_cols(M, src, sg).tobytes()
                if kb2 not in members:
                    raise RuntimeError("orbit not closed")  # harness self-inconsistency
                moved = kb2 != kb
                ok = appl & valid[kb] & valid[kb2][mapidx]
                if n:
                    E = np.abs(X[kb2][mapidx] - X[kb][:, src] * sgv).max(axis=1)
                else:
                    E = np.zeros(nc)
                ratio = E / tol[kb]
                st = status[kb]
                tight = ok & (st == 0)
                for i in np.nonzero(ok & (st == 1))[0]:
                    ctx.dropped += 1
                    ctx.count(reason[kb][i])
                ctx.count("comparisons", int(tight.sum()))
                if moved:
                    ctx.nontrivial += int((tight & nonzero[kb]).sum())
                if tight.any():
                    np.maximum(maxr[kindname], np.where(tight, np.nan_to_num(ratio, nan=np.inf), 0.0), out=maxr[kindname])
                bad = (tight & ~(ratio <= 1.0)) | (ok & (st == 3))
                for i in np.nonzero(bad)[0]:
                    cfg = cfgs[i]
                    tname = kindname + f":{src}{'' if pure else sg}"
                    got, expect = X[kb2][mapidx[i]], X[kb][i][src] * sgv
                    msg = f"{keys[i]} J={M.tolist()} T={tname}: A(TJ)={got.tolist()} T(A(J))={expect.tolist()}"
                    if st[i] == 3:
                        ctx.zero_direction("permutation" if pure else "orthogonal", float(E[i]), TOL / TOL_BY_AGG.get(cfg["name"], TOL) * tol[kb][i], msg)
                    else:
                        sig = f"{kindname}:{cfg['name']}"
                        ctx.viol.append(dict(sig=sig, cls=sig, msg=(msg + f" err={E[i]:.3g} tol={tol[kb][i]:.3g}")[:700]))
        for kindname, arr in maxr.items():
            for i, cfg in enumerate(cfgs):
                if arr[i] > 0 or kindname == "perm" or gram[i]:
                    lab = f"{kindname}:{K.cfg_label(cfg)}"
                    v = float(arr[i])
                    if v > ctx.maxima.get(lab, -1.0):
                        ctx.maxima[lab] = v
                    ctx.margin = max(ctx.margin, v if math.isfinite(v) else 1e300)


def _direct_transforms(n, with_group):
    """(name, kind, payload): kind 'Q' = dense orthogonal matrix, 'cols' = (src, sign) column map."""
    out = []
    for i, j in itertools.combinations(range(n), 2):
        for th in ANGLES:
            out.append((f"givens:({i},{j}),{th:.4g}", "Q", K.givens(n, i, j, th)))
    if n >= 2:
        out.append(("householder:", "Q", K.householder(n)))
    for src in K.zero_insertions(n):
        out.append((f"zero-column:{src}", "cols", (src, None)))
    if with_group:
        if n <= 3:
            for src, sg in K.signed_perms(n):
                pure = all(v > 0 for v in sg)
                out.append(((f"perm:{src}" if pure else f"signedperm:{src}{sg}"), "cols", (src, sg)))
        else:
            for p in itertools.permutations(range(n)):
                out.append((f"perm:{list(p)}", "cols", (list(p), None)))
    return out


def run_direct(J, cfgs, ctx, with_group, thin=None):
    m, n = J.shape
    pred = Pred(J)
    bases = {}
    for cfg in cfgs:
        out = ctx.call(cfg, J)
        if out is not None and base_checks(ctx, cfg, J, pred, out):
            bases[K.cfg_key(cfg)] = out
    for tname, kind, payload in _direct_transforms(n, with_group):
        if kind == "Q":
            J2 = J @ payload
        else:
            J2 = K.apply_cols(J, payload[0], payload[1])
        two_col = kind == "cols" and len(payload[0]) == n + 2
        if thin == "no-2col" and two_col:
            continue
        moved = J2.shape != J.shape or bool(np.any(J2 != J))
        # a zero-column insertion "moves" the matrix by definition; what matters is that the old coordinates keep their value
        for cfg in cfgs:
            name = cfg["name"]
            base = bases.get(K.cfg_key(cfg))
            if base is None:
                continue
            if kind == "Q":
                if name not in K.GRAMIAN_BASED:
                    continue
                cfg2, expect, exact = cfg, base[0] @ payload, False
            else:
                src, sg = payload
                if sg is not None and any(v < 0 for v in sg) and name not in K.GRAMIAN_BASED:
                    continue
                cfg2, expect, exact = K.map_cols_cfg(cfg, src), K.apply_vec(base[0], src, sg), True
            out = ctx.call(cfg2, J2)
            if out is None:
                continue
            if not np.all(np.isfinite(out[0])):
                ctx.viol.append(dict(sig=f"{tname.split(':')[0]}:{name}:nonfinite",
                                     msg=f"{K.cfg_key(cfg2)} J={J2.tolist()} -> {out[0].tolist()}"[:600]))
                continue
            compare_transformed(ctx, cfg, pred, J, base, out[0], expect, tname, exact, moved)


def run_nash_span(J, ctx):
    """Row-span clause for NashMTL on a fresh instance (m >= 2, no zero row: its log-barrier problem needs G alpha > 0)."""
    if J.shape[0] < 2 or np.any(np.linalg.norm(J, axis=1) == 0):
        return
    cfg = dict(name="NashMTL")
    out = ctx.call(cfg, J)
    if out is not None:
        base_checks(ctx, cfg, J, Pred(J), out)


def run_case(case):
    ctx = Ctx()
    kind = case["kind"]
    if kind == "orbit":
        run_orbit(case, ctx)
    elif kind == "direct":
        m, n = case["m"], case["n"]
        cfgs = configs(m, n, case["aggs"])
        if case.get("thin") == "no-2col":
            # 3x3 thorough, inexact transformations + zero columns: one configuration per aggregator class, plus the
            # preference-carrying ones of the pinv/eigh based ConFIG / AlignedMTL (all variants run on the 3x3 orbits)
            drop = {"UPGrad|p", "DualProj|p", "PCGrad|sched=rev", "GradDrop|U=" + str(U2[:n])}
            cfgs = [c for c in cfgs if not any(K.cfg_key(c).startswith(d) for d in drop)]
        canon = None
        for idx in case["idx"]:
            J = A.ternary_index(m, n, idx)
            if case.get("rowscale"):
                J = J * np.array(ROWSCALE[:m])[:, None]
            run_direct(J, cfgs, ctx, with_group=False, thin=case.get("thin"))
            if case["aggs"] in ("slow", "all") and (m, n) in ((2, 2), (2, 3)) and not case.get("rowscale"):
                if canon is None:
                    canon = set(orbit_reps(m, n, rows=True))
                if idx in canon:
                    run_nash_span(J, ctx)
    elif kind == "dense":
        m, n = case["m"], case["n"]
        J = dense_matrix(case["seed"], m, n, case["k"])
        run_direct(J, configs(m, n, case["aggs"], dense=True), ctx, with_group=True)
        run_nash_span(J, ctx)
    elif kind == "special":
        run_special(case, ctx)
    else:
        raise ValueError(kind)
    return ctx.result()


def _givens(n, i, j, theta):
    Q = np.eye(n)
    c, s_ = math.cos(theta), math.sin(theta)
    Q[i, i] = Q[j, j] = c
    Q[i, j], Q[j, i] = -s_, s_
    return Q


def run_special(case, ctx):
    import torch
    from torchjd import aggregation as T

    what = case["what"]

    def call(agg, J, dtype=torch.float64):
        ctx.execs += 1
        try:
            return agg(torch.tensor(J, dtype=dtype)).double().numpy()
        except Exception as e:
            ctx.viol.append(dict(sig=f"exception:special:{type(agg).__name__}:{type(e).__name__}", msg=f"{what} J={np.asarray(J).tolist()[:3]}: {e!r}"[:400]))
            return None

    if what == "big-norm-eps":
        # every |entry| (= 1) is below norm_eps = 1.2 while sigma_max >= 1.3: the aggregator must still project, and
        # commute with rotations that concentrate a row into one coordinate
        m, n = case["m"], case["n"]
        for idx in case["idx"]:
            J = A.ternary_index(m, n, idx)
            s = A.sigma_max(J)
            if s < 1.3 or not (J @ J.T < 0).any():
                ctx.dropped += 1
                continue
            Qs = [_givens(n, i, j, th) for i in range(n) for j in range(i + 1, n) for th in (math.pi / 7, 1.0)]
            v = np.arange(1, n + 1, dtype=np.float64)
            Qs.append(np.eye(n) - 2 * np.outer(v, v) / (v @ v))
            for name, agg, tol in (("UPGrad", T.UPGrad(norm_eps=1.2), 1e-9), ("DualProj", T.DualProj(norm_eps=1.2), 1e-9),
                                   ("CAGrad", T.CAGrad(c=0.5, norm_eps=1.2), 1e-3)):
                if name == "CAGrad" and R.is_stationary(J, 1e-6):
                    ctx.dropped += 1
                    continue
                x = call(agg, J)
                if x is None:
                    continue
                for qi, Q in enumerate(Qs):
                    y = call(agg, J @ Q)
                    if y is None:
                        continue
                    err = float(np.abs(y - x @ Q).max())
                    ctx.compare(f"special:big-norm-eps:{name}", err, tol * s, f"orthogonal:{name}:norm_eps-above-entries",
                                lambda: f"{name}(norm_eps=1.2) J={J.tolist()} sigma_max={s:.3g} Q#{qi}: A(JQ)={y.tolist()} A(J)Q={(x @ Q).tolist()}")
                ctx.nontrivial += 1
                ctx.outcomes.add(f"bne:{name}:" + digest(np.round(x, 6).tolist()))
    elif what == "wide-zero-columns":
        # appending thousands of all-zero columns changes nothing for the old coordinates (condition numbers 50 and 100: the
        # numerical rank is unambiguous)
        k = case["k"]
        D = [np.diag([1.0, 0.5, 0.02]), np.diag([1.0, 0.3, 0.01])][k % 2]
        if k >= 4:  # CONFLICTING rows (the diagonal ones are orthogonal: projections are trivial there), at scale 1 and at scale 5e-3
            D = [np.array([[1.0, 0.2, 0.0], [-1.0, 0.3, 0.1], [0.2, -1.0, 0.5]]), np.array([[2.0, -1.0, 0.5], [-1.5, 1.0, 0.25], [0.5, 0.5, -1.0]])][k % 2]
            if k >= 6:
                D = D * (5e-3 / A.sigma_max(D))
        J = np.hstack([D, np.zeros((3, 3))])
        if k >= 2:  # mix the coordinates with a rotation so that the rows are dense
            Q = _givens(6, 0, 3, 0.7) @ _givens(6, 1, 4, 1.1) @ _givens(6, 2, 5, 0.4) @ _givens(6, 0, 1, 0.3)
            J = J @ Q
        s = A.sigma_max(J)
        aggs = [("AlignedMTL", T.AlignedMTL(), 1e-9), ("AlignedMTL|p", T.AlignedMTL(pref_vector=torch.tensor([1.0, 2.0, 3.0], dtype=torch.float64) / 6), 1e-9),
                ("IMTLG", T.IMTLG(), 1e-9), ("ConFIG", T.ConFIG(), 1e-9), ("UPGrad", T.UPGrad(), 1e-9), ("DualProj", T.DualProj(), 1e-9),
                ("MGDA", T.MGDA(), 1e-9), ("Mean", T.Mean(), 1e-12), ("Krum", T.Krum(0, 1), 1e-12), ("TrimmedMean", T.TrimmedMean(1), 1e-12),
                ("CAGrad", T.CAGrad(c=0.5), 1e-3)]
        for name, agg, tol in aggs:
            x = call(agg, J)
            if x is None:
                continue
            for extra in ((1000, 5000, 70000) if name in ("UPGrad", "DualProj", "CAGrad", "AlignedMTL", "Mean") else (1000, 5000)):
                y = call(agg, np.hstack([J, np.zeros((3, extra))]))
                if y is None:
                    continue
                err = max(float(np.abs(y[:6] - x).max()), float(np.abs(y[6:]).max()))
                ctx.compare(f"special:wide-zero-columns:{name}", err, tol * s, f"zero-column:{name}:wide",
                            lambda: f"{name} on a 3x6 matrix (singular values {np.linalg.svd(J, compute_uv=False).round(4).tolist()}) with {extra} zero columns appended: "
                                    f"old coordinates {y[:6].tolist()} vs {x.tolist()}, new coordinates max |.|={float(np.abs(y[6:]).max()):.3g}")
                if extra == 5000:  # the zero columns IN FRONT: the informative columns are the last ones (blockwise code must not drop a tail)
                    y = call(agg, np.hstack([np.zeros((3, extra)), J]))
                    if y is not None:
                        err = max(float(np.abs(y[-6:] - x).max()), float(np.abs(y[:-6]).max()))
                        ctx.compare(f"special:wide-zero-columns:{name}", err, tol * s, f"zero-column:{name}:wide-front",
                                    lambda: f"{name} on a 3x6 matrix with {extra} zero columns IN FRONT: old coordinates {y[-6:].tolist()} vs {x.tolist()}")
            ctx.nontrivial += 1
            ctx.outcomes.add(f"wzc:{name}:" + digest(np.round(x, 6).tolist()))
    elif what == "backward-layout":
        # "how parameters are laid out in the Jacobian never changes the update": the last clause at the level of torchjd.backward.
        # Every 1-op program over leaves of shapes (2,2), (2,), (1,) is differentiated with the 2-d leaf stored row-major and
        # column-major (dense, non-contiguous), and with the inputs listed in both orders, under a non-linear aggregator: every
        # parameter must receive the same update (added after a seeded change that re-strided the aggregated gradient to the
        # memory layout of its parameter)
        from torchjd import backward

        from mc import programs as P

        shapes = P.SHAPE_SCENARIOS["S2"]
        progs = list(P.enum_program_outputs(shapes, (1, 1, 1), 1, max_outputs=2, both_orders=False))
        lv = P.leaf_values(shapes, case.get("seed", 0))
        for prog, outs in progs[case["k"]::4]:
            t = P.Typed(prog)
            m = sum(t.numel(o) for o in outs)
            if m < 2:
                continue
            res = {}
            for lay in ("c", "f"):
                for rev in (False, True):
                    vals = P.build_torch(prog, lv, "float64", layout=lay)
                    leaves = [vals[i] for i in range(t.nleaves) if t.req[i]]
                    ctx.execs += 1
                    try:
                        backward([vals[o] for o in outs], T.UPGrad(), inputs=leaves[::-1] if rev else leaves)
                    except Exception as e:
                        ctx.viol.append(dict(sig=f"exception:special:backward-layout:{type(e).__name__}", msg=f"{P.prog_str(prog, outs)} layout={lay} reversed={rev}: {e!r}"[:400]))
                        continue
                    res[(lay, rev)] = [None if x.grad is None else x.grad.detach().numpy().copy() for x in leaves]
            if ("c", False) not in res:
                continue
            base = res[("c", False)]
            for key_, g in res.items():
                for i, (x, y) in enumerate(zip(base, g)):
                    if (x is None) != (y is None):
                        ctx.viol.append(dict(sig="layout:backward:grad-presence", msg=f"{P.prog_str(prog, outs)} {key_}"))
                        continue
                    if x is None or not x.size:
                        continue
                    sc = max(1.0, float(np.abs(x).max()))
                    ctx.compare("special:backward-layout", float(np.abs(x - y).max()), 1e-10 * sc, "layout:backward:UPGrad",
                                lambda: f"backward({P.prog_str(prog, outs)}, UPGrad()) leaf {i}: row-major/listed order {x.tolist()} vs layout={key_[0]} reversed={key_[1]} {y.tolist()}")
            ctx.nontrivial += 1
            ctx.outcomes.add("bl:" + digest([None if x is None else np.round(x, 6).tolist() for x in base]))
    elif what == "square-to-wide":
        # a square matrix of unambiguous rank (sigma_min 3..7 orders of magnitude above the cut-off of pinv) becomes wide when one or
        # five all-zero columns are appended: the old coordinates must not change beyond the conditioning of the matrix itself
        # (added after a seeded change: pinv through the Gramian - squared conditioning - for wide matrices only)
        U = _givens(3, 0, 1, 0.7) @ _givens(3, 1, 2, 1.1) @ _givens(3, 0, 2, 0.4)
        V = _givens(3, 0, 1, 0.3) @ _givens(3, 1, 2, 2.0) @ _givens(3, 0, 2, 1.3)
        for dtype, eps, sigmas in ((torch.float64, 2.3e-16, (1e-2, 1e-4, 1e-6, 1e-8, 1e-9)), (torch.float32, 1.2e-7, (1e-2, 1e-3, 2e-4))):
            for sg in sigmas:
                J = U @ np.diag([1.0, 0.5, sg]) @ V.T
                for name, agg, well in (("ConFIG", T.ConFIG(), False), ("ConFIG|p", T.ConFIG(pref_vector=torch.tensor([1.0, 2.0, 3.0], dtype=dtype)), False),
                                        ("UPGrad", T.UPGrad(), True), ("DualProj", T.DualProj(), True), ("AlignedMTL", T.AlignedMTL(), True)):
                    x = call(agg, J, dtype)
                    if x is None:
                        continue
                    xs = max(float(np.abs(x).max()), 1e-300)
                    tol = (16 * eps / sg if not well else 256 * eps) * xs
                    for extra in (1, 5):
                        y = call(agg, np.hstack([J, np.zeros((3, extra))]), dtype)
                        if y is None:
                            continue
                        err = max(float(np.abs(y[:3] - x).max()), float(np.abs(y[3:]).max()))
                        ctx.compare(f"special:square-to-wide:{name}", err, tol, f"zero-column:{name}:square-to-wide",
                                    lambda: f"{name} {str(dtype)[6:]} on a 3x3 matrix with singular values (1, 0.5, {sg}) and {extra} zero column(s) appended: "
                                            f"old coordinates {y[:3].tolist()} vs {x.tolist()} (err {err:.3g}, allowed {tol:.3g}), new coordinates {y[3:].tolist()}")
                    ctx.nontrivial += 1
                    ctx.outcomes.add(f"s2w:{name}:{sg}:" + digest(np.round(x / xs, 5).tolist()))
    elif what == "native-seed":
        # the SAME instance of a randomised aggregator, torch.manual_seed before every call (no replayed draws): a second call must
        # behave like the first, and the draws must not depend on the column layout
        mats = [np.array([[1.0, -2.0, 0.5], [-1.0, 1.0, 2.0], [0.5, 0.5, -1.0]]), np.array([[1.0, 0.0, 1.0], [-1.0, 1.0, 0.0], [-0.5, -2.0, 0.5], [0.25, -1.0, -1.0]]),
                # a conflict-free row EXACTLY orthogonal to another one, rows with two conflicting partners (the number of draws must not
                # depend on the sign of rounding noise)
                np.array([[1.0, 2.0, 3.0, 0.0], [3.0, 0.0, -1.0, 0.0], [1.0, 0.0, 1.0, -2.0], [-1.0, 1.0, 0.0, 1.0]])]
        J = mats[case["k"]]
        n = J.shape[1]
        s = A.sigma_max(J)
        for name, mk, percol in (("PCGrad", T.PCGrad, False), ("Random", T.Random, False), ("GradDrop", T.GradDrop, True)):
            agg = mk()
            for seed_ in range(6):
                def run(M):
                    torch.manual_seed(seed_)
                    ctx.execs += 1
                    return agg(torch.tensor(M, dtype=torch.float64)).numpy()
                x, x2 = run(J), run(J)
                if float(np.abs(x - x2).max()) > 0:
                    ctx.viol.append(dict(sig=f"seed-not-honoured-on-reuse:{name}", msg=f"{name} J={J.tolist()} manual_seed({seed_}) twice on one instance: {x.tolist()} vs {x2.tolist()}"))
                    continue
                if percol:
                    continue  # GradDrop draws one number per column: a column permutation legitimately permutes the draws
                for perm in itertools.permutations(range(n)):
                    y = run(J[:, list(perm)])
                    ctx.compare(f"special:native-seed:{name}", float(np.abs(y - x[list(perm)]).max()), 1e-9 * s, f"perm:{name}:native-seed",
                                lambda: f"{name} J={J.tolist()} columns {list(perm)} manual_seed({seed_}): {y.tolist()} vs {x[list(perm)].tolist()}")
                for (i_, j_) in itertools.combinations(range(n), 2):
                    for th in (math.pi / 7, 1.0, 2.5):
                        Q = _givens(n, i_, j_, th)
                        y = run(J @ Q)
                        ctx.compare(f"special:native-seed:{name}", float(np.abs(y - x @ Q).max()), 1e-9 * s, f"orthogonal:{name}:native-seed",
                                    lambda: f"{name} J={J.tolist()} Givens({i_},{j_},{th:.3g}) manual_seed({seed_}): A(JQ)={y.tolist()} A(J)Q={(x @ Q).tolist()}")
                y = run(np.hstack([J, np.zeros((J.shape[0], 2))]))
                ctx.compare(f"special:native-seed:{name}", max(float(np.abs(y[:n] - x).max()), float(np.abs(y[n:]).max())), 1e-9 * s,
                            f"zero-column:{name}:native-seed", lambda: f"{name} J={J.tolist()} + 2 zero columns, manual_seed({seed_}): {y.tolist()} vs {x.tolist()}")
            ctx.nontrivial += 1
            ctx.outcomes.add(f"ns:{name}:{case['k']}")
    elif what == "instance-reuse":
        # ONE instance per aggregator fed a sequence of temporaries of the same shape (what backward() produces at every step: the
        # previous Jacobian is freed, the next one is often allocated at the same address), then a square matrix and its transposed
        # VIEW: every result must be bit-identical to a new instance's on a new tensor
        w3 = torch.tensor([1.0, -2.0, 3.0], dtype=torch.float64)
        makers = [("UPGrad", lambda: T.UPGrad()), ("DualProj", lambda: T.DualProj()), ("MGDA", lambda: T.MGDA()), ("CAGrad", lambda: T.CAGrad(c=0.5)),
                  ("IMTLG", lambda: T.IMTLG()), ("AlignedMTL", lambda: T.AlignedMTL()), ("ConFIG", lambda: T.ConFIG()), ("Mean", lambda: T.Mean()),
                  ("Sum", lambda: T.Sum()), ("Krum", lambda: T.Krum(0, 1)), ("TrimmedMean", lambda: T.TrimmedMean(1)), ("Constant", lambda: T.Constant(w3))]
        ncol = 50 if case["k"] == 0 else 3

        def gen(i):
            return np.array([[math.sin(1.3 * r + 0.7 * c_ + 0.9 * i) + (0.5 if r == c_ % 3 else 0.0) for c_ in range(ncol)] for r in range(3)])

        for name, mk in makers:
            inst = mk()
            for i in range(6):
                Jn = gen(i)
                ctx.execs += 2
                try:
                    x = inst(torch.tensor(Jn, dtype=torch.float64) * 1.0).numpy().copy()  # "* 1.0": a temporary, freed right after the call
                    y = mk()(torch.tensor(Jn, dtype=torch.float64)).numpy()
                except Exception as e:
                    ctx.viol.append(dict(sig=f"exception:special:{name}:{type(e).__name__}", msg=f"instance-reuse {name}: {e!r}"[:300]))
                    break
                if x.tobytes() != y.tobytes():
                    ctx.viol.append(dict(sig=f"result-depends-on-earlier-calls:{name}", cls=f"reuse:{name}",
                                         msg=f"{name}: call #{i} of one instance on a temporary {Jn.shape} matrix gives {x[:4].tolist()}..., a new instance gives {y[:4].tolist()}..."))
                    break
            if ncol == 3:
                Jt = torch.tensor(gen(7), dtype=torch.float64)
                try:
                    inst2 = mk()
                    inst2(Jt)
                    x = inst2(Jt.T).numpy().copy()
                    y = mk()(Jt.T.contiguous()).numpy()
                    ctx.execs += 3
                    if float(np.abs(x - y).max()) > 1e-9 * A.sigma_max(gen(7)):
                        ctx.viol.append(dict(sig=f"result-depends-on-earlier-calls:{name}:transposed-view", cls=f"reuse-T:{name}",
                                             msg=f"{name}: J then its view J.T on one instance gives {x.tolist()}, a new instance on J.T gives {y.tolist()}"))
                except Exception as e:
                    ctx.viol.append(dict(sig=f"exception:special:{name}:{type(e).__name__}", msg=f"instance-reuse (view) {name}: {e!r}"[:300]))
            ctx.nontrivial += 1
            ctx.outcomes.add(f"ir:{name}:{case['k']}")
    else:  # tall-krum-float32
        m, off = case["m"], case["offset"]
        n = 3
        J = np.array([[off + ((7 * i + 3 * j) % 5) + 0.03125 * i * (j + 1) for j in range(n)] for i in range(m)])
        J32 = torch.tensor(J, dtype=torch.float32).double().numpy()
        for f, k in ((0, 1), (2, 1), (2, 3)):
            scores = sorted(R.krum_scores(J32, f))
            if scores[k] - scores[k - 1] < 1e-3 * max(1.0, scores[k]):
                ctx.dropped += 1
                ctx.count("drop:krum-tie")
                continue
            agg = T.Krum(f, k)
            x = call(agg, J32, torch.float32)
            if x is None:
                continue
            for perm in itertools.permutations(range(n)):
                y = call(agg, J32[:, list(perm)], torch.float32)
                if y is not None:
                    err = float(np.abs(y - x[list(perm)]).max())
                    ctx.compare("special:tall-krum-float32:perm", err, 16 * 1.2e-7 * max(1.0, float(np.abs(x).max())), "perm:Krum:tall-float32",
                                lambda: f"Krum({f},{k}) float32 {m}x{n} rows offset {off:g}: A(J[:,{list(perm)}])={y.tolist()} A(J)[perm]={x[list(perm)].tolist()}")
            for pos in range(n + 1):
                Jz = np.insert(J32, pos, 0.0, axis=1)
                y = call(agg, Jz, torch.float32)
                if y is not None:
                    err = max(float(np.abs(np.delete(y, pos) - x).max()), abs(float(y[pos])))
                    ctx.compare("special:tall-krum-float32:zero-column", err, 16 * 1.2e-7 * max(1.0, float(np.abs(x).max())), "zero-column:Krum:tall-float32",
                                lambda: f"Krum({f},{k}) float32 {m}x{n} rows offset {off:g}, zero column at {pos}: {y.tolist()} vs {x.tolist()}")
            ctx.nontrivial += 1
            ctx.outcomes.add(f"tk:{m}:{off}:{f}:{k}:" + digest(np.round(x, 3).tolist()))
